// ---- prelude/io.rs : the std::io contracts assumed for Read / Write (DESIGN 4.1, rule R1) ----
pub mod vio {
    use vstd::prelude::*;
    use super::*;

    #[derive(PartialEq, Eq, Clone, Copy)]
    pub enum ErrorKind { UnexpectedEof, Interrupted, WriteZero, Other, Uncategorized }
    impl vstd::std_specs::cmp::PartialEqSpecImpl for ErrorKind {
        open spec fn obeys_eq_spec() -> bool { true }
        open spec fn eq_spec(&self, other: &Self) -> bool { *self == *other }
    }

    #[verifier::external_body]
    pub struct Error { k: ErrorKind }

    pub type Result<T> = core::result::Result<T, Error>;

    impl Error {
        pub uninterp spec fn spec_kind(&self) -> ErrorKind;
        #[verifier::external_body]
        pub fn kind(&self) -> (r: ErrorKind)
            ensures r == self.spec_kind()
        { unimplemented!() }
        #[verifier::external_body]
        pub fn new(kind: ErrorKind, msg: &str) -> (r: Error)
            ensures r.spec_kind() == kind
        { unimplemented!() }
    }
    impl From<ErrorKind> for Error {
        #[verifier::external_body]
        fn from(kind: ErrorKind) -> (r: Error)
            ensures r.spec_kind() == kind
        { unimplemented!() }
    }
    impl vstd::std_specs::convert::FromSpecImpl<ErrorKind> for Error {
        open spec fn obeys_from_spec() -> bool { false }
        uninterp spec fn from_spec(k: ErrorKind) -> Error;
    }

    pub trait VRead {
        /// bytes the source has not delivered yet (finite)
        spec fn remaining(&self) -> Seq<u8>;
        /// history of the successful non-empty `read` results
        spec fn reads(&self) -> Seq<Seq<u8>>;
        /// the object never returns a spurious Err
        spec fn fault_free(&self) -> bool;
        /// number of read/read_exact calls made
        spec fn rcalls(&self) -> nat;

        fn read(&mut self, buf: &mut [u8]) -> (r: Result<usize>)
            ensures
                final(self).fault_free() == old(self).fault_free(),
                final(self).rcalls() == old(self).rcalls() + 1,
                final(buf)@.len() == old(buf)@.len(),
                old(self).fault_free() ==> r is Ok,
                r is Err ==> final(self).remaining() == old(self).remaining()
                          && final(self).reads() == old(self).reads(),
                r matches Ok(n) ==> {
                    &&& n <= old(buf)@.len()
                    &&& n <= old(self).remaining().len()
                    &&& final(buf)@.subrange(0, n as int) == old(self).remaining().subrange(0, n as int)
                    &&& final(self).remaining() == old(self).remaining().skip(n as int)
                    &&& (n == 0 ==> old(buf)@.len() == 0 || old(self).remaining().len() == 0)
                    &&& final(self).reads() == (if n > 0 { old(self).reads().push(old(self).remaining().subrange(0, n as int)) }
                                               else { old(self).reads() })
                };

        fn read_exact(&mut self, buf: &mut [u8]) -> (r: Result<()>)
            ensures
                final(self).fault_free() == old(self).fault_free(),
                final(self).rcalls() == old(self).rcalls() + 1,
                final(buf)@.len() == old(buf)@.len(),
                final(self).reads() == old(self).reads(),
                r is Ok ==> old(self).remaining().len() >= old(buf)@.len()
                    && final(buf)@ == old(self).remaining().subrange(0, old(buf)@.len() as int)
                    && final(self).remaining() == old(self).remaining().skip(old(buf)@.len() as int),
                r is Err ==> !old(self).fault_free() || old(self).remaining().len() < old(buf)@.len(),
                r is Err ==> final(self).remaining().len() <= old(self).remaining().len(),
                old(self).fault_free() && old(self).remaining().len() >= old(buf)@.len() ==> r is Ok;

        /// std::io::Read::read_to_end: drains the source completely into `buf`
        fn read_to_end(&mut self, buf: &mut Vec<u8>) -> (r: Result<usize>)
            ensures
                final(self).fault_free() == old(self).fault_free(),
                final(self).rcalls() > old(self).rcalls(),
                final(self).reads() == old(self).reads(),
                old(self).fault_free() ==> r is Ok,
                r matches Ok(n) ==> n == old(self).remaining().len() && final(self).remaining().len() == 0
                    && final(buf)@ == old(buf)@ + old(self).remaining(),
                r is Err ==> final(self).remaining().len() <= old(self).remaining().len();
    }

    pub trait VWrite {
        /// everything the sink has accepted so far
        spec fn written(&self) -> Seq<u8>;
        /// number of write / write_all / flush calls made on the sink
        spec fn calls(&self) -> nat;
        spec fn fault_free(&self) -> bool;

        /// std::io::Write::write: may accept any prefix of `buf` (at least one byte of a non-empty buffer on Ok)
        fn write(&mut self, buf: &[u8]) -> (r: Result<usize>)
            ensures
                final(self).fault_free() == old(self).fault_free(),
                final(self).calls() == old(self).calls() + 1,
                old(self).fault_free() ==> r is Ok,
                r matches Ok(n) ==> n <= buf@.len() && (buf@.len() > 0 ==> n > 0)
                    && final(self).written() == old(self).written() + buf@.subrange(0, n as int),
                r is Err ==> final(self).written() == old(self).written();

        fn write_all(&mut self, buf: &[u8]) -> (r: Result<()>)
            ensures
                final(self).fault_free() == old(self).fault_free(),
                final(self).calls() == old(self).calls() + 1,
                old(self).fault_free() ==> r is Ok,
                r is Ok ==> final(self).written() == old(self).written() + buf@,
                r is Err ==> is_prefix(old(self).written(), final(self).written())
                          && is_prefix(final(self).written(), old(self).written() + buf@);

        fn flush(&mut self) -> (r: Result<()>)
            ensures
                final(self).fault_free() == old(self).fault_free(),
                final(self).calls() == old(self).calls() + 1,
                final(self).written() == old(self).written(),
                old(self).fault_free() ==> r is Ok;
    }
}
pub use vio::{VRead, VWrite};
