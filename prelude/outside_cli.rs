// ---- prelude/outside_cli.rs : Debug impls for stub error types (plain Rust, outside verus!) ----
impl core::fmt::Debug for B64Error {
    fn fmt(&self, f: &mut core::fmt::Formatter<'_>) -> core::fmt::Result { f.write_str("B64Error") }
}
impl core::fmt::Debug for kestrel_crypto::ChaPolyDecryptError {
    fn fmt(&self, f: &mut core::fmt::Formatter<'_>) -> core::fmt::Result { f.write_str("ChaPolyDecryptError") }
}
impl core::fmt::Debug for kestrel_crypto::DhError {
    fn fmt(&self, f: &mut core::fmt::Formatter<'_>) -> core::fmt::Result { f.write_str("DhError") }
}
