// ---- prelude/cli.rs : assumed contracts of ct-codecs 1.1.3 (Base64) and of std::fs::File::create for the CLI unit ----
pub uninterp spec fn b64_encode(b: Seq<u8>) -> Seq<u8>;
pub uninterp spec fn b64_decode(s: Seq<u8>) -> Option<Seq<u8>>;
pub mod b64_axioms {
use vstd::prelude::*;
use super::*;
/// AX-B64 (RFC 4648): decoding inverts encoding
pub broadcast proof fn axiom_b64_roundtrip(b: Seq<u8>)
    ensures #[trigger] b64_decode(b64_encode(b)) == Some(b)
{ admit(); }
}
pub use b64_axioms::axiom_b64_roundtrip;

pub struct B64Error;
pub struct Base64;
pub trait B64In {
    spec fn in_bytes(&self) -> Seq<u8>;
}
impl<'a> B64In for &'a str { open spec fn in_bytes(&self) -> Seq<u8> { str_bytes(self@) } }
impl<'a> B64In for &'a String { open spec fn in_bytes(&self) -> Seq<u8> { str_bytes(self@) } }
impl<'a> B64In for &'a Vec<u8> { open spec fn in_bytes(&self) -> Seq<u8> { self@ } }
impl<'a, const N: usize> B64In for &'a [u8; N] { open spec fn in_bytes(&self) -> Seq<u8> { self@ } }
impl Base64 {
    /// ct-codecs Decoder::decode_to_vec: total; Ok(bytes) exactly for well-formed (padded, standard alphabet) input
    #[verifier::external_body]
    pub fn decode_to_vec<IN: B64In>(encoded: IN, ignore: Option<&[u8]>) -> (r: Result<Vec<u8>, B64Error>)
        ensures
            // strict decoding only when no characters are to be ignored; with an ignore set the result is unconstrained
            ignore is None ==> (r is Ok <==> b64_decode(encoded.in_bytes()) is Some),
            ignore is None ==> (r matches Ok(v) ==> Some(v@) == b64_decode(encoded.in_bytes())),
    { unimplemented!() }
    /// ct-codecs Encoder::encode_to_string: Err only on length overflow
    #[verifier::external_body]
    pub fn encode_to_string<IN: B64In>(bin: IN) -> (r: Result<String, B64Error>)
        ensures
            bin.in_bytes().len() < 0x1000_0000 ==> r is Ok,
            r matches Ok(s) ==> str_bytes(s@) == b64_encode(bin.in_bytes()),
    { unimplemented!() }
}

// --- rule R10: diagnostic macros (format!, anyhow!, eprintln!, ...) become opaque calls that keep their arguments
#[verifier::external_body]
pub struct VArg { _p: u8 }
impl VArg {
    /// the format-string literal this argument stands for (vlit), None for a value argument
    pub uninterp spec fn lit(&self) -> Option<Seq<char>>;
    /// the text `{}` shows for a value argument
    pub uninterp spec fn shown(&self) -> Seq<char>;
}
/// what `Display` shows for a value (uninterpreted; for a String it is the string, which no obligation needs)
pub uninterp spec fn display_text<T>(t: T) -> Seq<char>;
#[verifier::external_body]
pub fn vlit(s: &str) -> (r: VArg) ensures r.lit() == Some(s@) { unimplemented!() }
#[verifier::external_body]
pub fn varg<T>(t: &T) -> (r: VArg) ensures r.lit() is None, r.shown() == display_text(*t) { unimplemented!() }
/// format!: the result is unconstrained except for the one shape C14 needs, `format!("\n{}", x)` = a line break
/// followed by what `{}` shows for x (std::fmt semantics of a literal character and one `{}`)
#[verifier::external_body]
pub fn v_format(args: &[VArg]) -> (r: String)
    ensures (args@.len() == 2 && args@[0].lit() == Some("\n{}"@) && args@[1].lit() is None) ==> r@ == seq!['\n'] + args@[1].shown()
{ unimplemented!() }
#[verifier::external_body]
pub fn v_eprintln(args: &[VArg]) { }
#[verifier::external_body]
pub fn v_eprint(args: &[VArg]) { }
/// Permission to put text on standard output.  Uninterpreted; only the key commands (whose result IS text on stdout)
/// carry it in their `requires`.  The file commands do not, so a `println!` in them - which would land inside a
/// ciphertext or plaintext written to stdout - is a failed obligation (C08, C06).
pub uninterp spec fn stdout_text_permitted() -> bool;
#[verifier::external_body]
pub fn v_println(args: &[VArg])
    requires stdout_text_permitted()
{ }
#[verifier::external_body]
pub fn v_print(args: &[VArg])
    requires stdout_text_permitted()
{ }

// --- std::fs / std::io / std::path as the CLI's OnDemandFile uses them (assumed contracts, C13)
/// Permission to create or truncate a file at the output path.  Uninterpreted: no function can establish it,
/// so code WITHOUT it in its `requires` provably never reaches File::create.
pub uninterp spec fn fs_create_permitted() -> bool;
pub uninterp spec fn fs_resize_permitted() -> bool;
pub mod vio {
    use vstd::prelude::*;
    pub struct Error;
    pub type Result<T> = core::result::Result<T, Error>;
    pub struct Stdout;
    #[verifier::external_body]
    pub fn stdout() -> Stdout { Stdout }
}
pub trait VWrite {}
impl VWrite for vio::Stdout {}
#[verifier::external_body]
pub struct PathBuf { p: std::path::PathBuf }
#[verifier::external_body]
pub struct File { f: std::fs::File }
/// what PathBuf::from accepts in this code base: `String` and `&str` (the text of the path is their characters)
pub trait VPathText { spec fn path_text(&self) -> Seq<char>; }
impl VPathText for String { open spec fn path_text(&self) -> Seq<char> { self@ } }
impl VPathText for &str { open spec fn path_text(&self) -> Seq<char> { self@ } }
impl VPathText for &String { open spec fn path_text(&self) -> Seq<char> { self@ } }
impl PathBuf {
    #[verifier::external_body]
    pub fn from<T: VPathText>(s: T) -> (r: PathBuf)
        ensures r.chars() == s.path_text()
    { unimplemented!() }
}
/// rule R19: `p.as_ref().to_path_buf()` for `p: impl AsRef<Path>`
#[verifier::external_body]
pub fn v_to_path_buf<T>(p: &T) -> PathBuf { unimplemented!() }
impl File {
    /// std::fs::File::create creates the file or TRUNCATES an existing one
    #[verifier::external_body]
    pub fn create(path: &PathBuf) -> (r: vio::Result<File>)
        requires fs_create_permitted()
        ensures r matches Ok(f) ==> f.contents() == Seq::<u8>::empty() && f.fresh() && !f.keeps_existing()
    { unimplemented!() }
    /// the bytes this handle has put into the file since it was opened (ghost)
    pub uninterp spec fn contents(&self) -> Seq<u8>;
    /// the file is KNOWN to have held nothing when it was opened (created anew, or truncated): what the handle writes is
    /// all the file holds.  false = not known (opened without truncate: an existing file keeps its old bytes)
    pub uninterp spec fn fresh(&self) -> bool;
    /// the bytes the file held when this handle was opened stay where they are, in front of everything the handle writes
    /// (O_APPEND without truncation: every write goes to the end of the file).  C14
    pub uninterp spec fn keeps_existing(&self) -> bool;
    /// std::io::Write::write on a file: Ok(n) puts exactly the first n bytes of buf behind what is already there
    #[verifier::external_body]
    pub fn write(&mut self, buf: &[u8]) -> (r: vio::Result<usize>)
        ensures
            final(self).fresh() == old(self).fresh(),
            r matches Ok(n) ==> n <= buf@.len() && final(self).contents() == old(self).contents() + buf@.subrange(0, n as int),
            r is Err ==> final(self).contents() == old(self).contents(),
    { unimplemented!() }
    #[verifier::external_body]
    pub fn flush(&mut self) -> (r: vio::Result<()>)
        ensures final(self).fresh() == old(self).fresh(), final(self).contents() == old(self).contents()
    { unimplemented!() }
    /// std::fs::File::set_len truncates or zero-extends the file: bytes the handle never wrote appear in it.  It needs a
    /// permission no function can establish (like fs_create_permitted), so any call is a failed obligation (C13)
    #[verifier::external_body]
    pub fn set_len(&self, size: u64) -> (r: vio::Result<()>)
        requires fs_resize_permitted()
    { unimplemented!() }
    #[verifier::external_body]
    pub fn write_all(&mut self, buf: &[u8]) -> (r: vio::Result<()>)
        ensures
            final(self).fresh() == old(self).fresh(),
            r is Ok ==> final(self).contents() == old(self).contents() + buf@,
            r is Err ==> exists|k: int| 0 <= k <= buf@.len() && final(self).contents() == old(self).contents() + buf@.subrange(0, k),
    { unimplemented!() }
}
impl VWrite for File {}
/// std::fs::OpenOptions as a builder: opening with create / create_new / truncate may create or clobber the file, so it
/// needs the same permission as File::create (assumed contract, C13)
pub struct OpenOptions { pub read: bool, pub write: bool, pub append: bool, pub truncate: bool, pub create: bool, pub create_new: bool }
impl OpenOptions {
    pub fn new() -> (r: OpenOptions)
        ensures !r.read && !r.write && !r.append && !r.truncate && !r.create && !r.create_new
    { OpenOptions { read: false, write: false, append: false, truncate: false, create: false, create_new: false } }
    pub fn read(&mut self, b: bool) -> (r: &mut OpenOptions)
        ensures *r == (OpenOptions { read: b, ..*old(self) }), *final(r) == *final(self)
    { self.read = b; self }
    pub fn write(&mut self, b: bool) -> (r: &mut OpenOptions)
        ensures *r == (OpenOptions { write: b, ..*old(self) }), *final(r) == *final(self)
    { self.write = b; self }
    pub fn append(&mut self, b: bool) -> (r: &mut OpenOptions)
        ensures *r == (OpenOptions { append: b, ..*old(self) }), *final(r) == *final(self)
    { self.append = b; self }
    pub fn truncate(&mut self, b: bool) -> (r: &mut OpenOptions)
        ensures *r == (OpenOptions { truncate: b, ..*old(self) }), *final(r) == *final(self)
    { self.truncate = b; self }
    pub fn create(&mut self, b: bool) -> (r: &mut OpenOptions)
        ensures *r == (OpenOptions { create: b, ..*old(self) }), *final(r) == *final(self)
    { self.create = b; self }
    pub fn create_new(&mut self, b: bool) -> (r: &mut OpenOptions)
        ensures *r == (OpenOptions { create_new: b, ..*old(self) }), *final(r) == *final(self)
    { self.create_new = b; self }
    /// std::os::unix::fs::OpenOptionsExt::mode: permission bits of a newly created file only
    pub fn mode(&mut self, m: u32) -> (r: &mut OpenOptions)
        ensures *r == *old(self), *final(r) == *final(self)
    { self }
    /// without truncate (or create_new) an existing file keeps its old bytes: the handle is not `fresh`; with append the
    /// old bytes even precede what is written
    #[verifier::external_body]
    pub fn open<P>(&self, path: P) -> (r: vio::Result<File>)
        requires (self.create || self.create_new || self.truncate) ==> fs_create_permitted()
        ensures r matches Ok(f) ==> f.contents() == Seq::<u8>::empty() && (f.fresh() == ((self.truncate && !self.append) || self.create_new))
            && (f.keeps_existing() == (self.append && !self.truncate))   // write-only without append starts overwriting at offset 0
    { unimplemented!() }
}
pub enum Stream { Stdin, Stdout, Stderr }
#[verifier::external_body]
pub fn isatty(s: Stream) -> bool { unimplemented!() }
pub struct AnyhowError;
pub mod anyhow { pub use super::AnyhowError as Error; }
#[verifier::external_body]
pub fn v_anyhow(args: &[VArg]) -> (r: AnyhowError) { AnyhowError }
#[verifier::external_body]
pub fn v_cfg_windows() -> bool { cfg!(target_os = "windows") }
pub mod ct_codecs { pub use super::{B64Error as Error, Base64}; }

// --- str / String operations of Keyring::parse_config (rule R16): total std functions, results unconstrained
#[verifier::external_body]
pub fn v_lines(s: &str) -> (r: Vec<&str>) { s.lines().collect() }
#[verifier::external_body]
pub fn v_retain_not_tab(s: &mut String) { s.retain(|c| c != '\t') }
#[verifier::external_body]
pub fn v_str_trim<'a>(s: &'a str) -> (r: &'a str) { s.trim() }
#[verifier::external_body]
pub fn v_starts_with(s: &str, pat: &str) -> (r: bool) { s.starts_with(pat) }
#[verifier::external_body]
pub fn v_starts_with_char(s: &str, c: char) -> (r: bool) { s.starts_with(c) }
#[verifier::external_body]
pub fn v_split_once<'a>(s: &'a str, c: char) -> (r: Option<(&'a str, &'a str)>) { s.split_once(c) }

// --- anyhow::Error: any std error converts into it (blanket From impl of anyhow); its content is diagnostic
impl From<errors::KeyringError> for AnyhowError { #[verifier::external_body] fn from(e: errors::KeyringError) -> AnyhowError { AnyhowError } }
impl From<kestrel_crypto::DhError> for AnyhowError { #[verifier::external_body] fn from(e: kestrel_crypto::DhError) -> AnyhowError { AnyhowError } }
impl From<vio::Error> for AnyhowError { #[verifier::external_body] fn from(e: vio::Error) -> AnyhowError { AnyhowError } }
impl vstd::std_specs::convert::FromSpecImpl<errors::KeyringError> for AnyhowError {
    open spec fn obeys_from_spec() -> bool { false }
    uninterp spec fn from_spec(e: errors::KeyringError) -> AnyhowError;
}
impl vstd::std_specs::convert::FromSpecImpl<kestrel_crypto::DhError> for AnyhowError {
    open spec fn obeys_from_spec() -> bool { false }
    uninterp spec fn from_spec(e: kestrel_crypto::DhError) -> AnyhowError;
}
impl vstd::std_specs::convert::FromSpecImpl<vio::Error> for AnyhowError {
    open spec fn obeys_from_spec() -> bool { false }
    uninterp spec fn from_spec(e: vio::Error) -> AnyhowError;
}
/// C14: the output object is KNOWN to leave the bytes already in its file in place and to put what it writes behind them.
/// Uninterpreted; established only by boxing a File handle that `keeps_existing()` (v_box_file), so an object from
/// open_output (OnDemandFile: File::create truncates) or standard output can never be shown to have it.
pub uninterp spec fn box_keeps_existing(w: Box<dyn VWrite>) -> bool;
/// `Box::new(file)` coerced to `Box<dyn Write>` (rule R19)
#[verifier::external_body]
pub fn v_box_file(f: File) -> (r: Box<dyn VWrite>)
    ensures box_keeps_existing(r) == f.keeps_existing()
{ unimplemented!() }
#[verifier::external_body]
pub fn v_box_write_all(w: &mut Box<dyn VWrite>, buf: &[u8]) -> (r: vio::Result<()>)
    ensures box_keeps_existing(*final(w)) == box_keeps_existing(*old(w))
{ unimplemented!() }
#[verifier::external_body]
pub fn v_box_flush(w: &mut Box<dyn VWrite>) -> (r: vio::Result<()>)
    ensures box_keeps_existing(*final(w)) == box_keeps_existing(*old(w))
{ unimplemented!() }
/// whether a file exists at the path with this text (assumed stable between the two look-ups of one key generation)
pub uninterp spec fn path_exists(p: Seq<char>) -> bool;
#[verifier::external_body]
pub fn v_path_exists(p: &String) -> (r: bool) ensures r == path_exists(p@) { unimplemented!() }
/// rule R23: `Path::new(x).exists()` for x a `&str` / `&String` / `String` binding
#[verifier::external_body]
pub fn v_path_exists_any<T: VPathText>(p: T) -> (r: bool) ensures r == path_exists(p.path_text()) { unimplemented!() }
#[verifier::external_body]
pub fn v_path_exists_str(p: &str) -> (r: bool) ensures r == path_exists(p@) { unimplemented!() }
#[verifier::external_body]
pub fn v_opt_as_deref<'a>(o: &'a Option<String>) -> (r: Option<&'a str>)
    ensures (r is Some) == (o is Some), r matches Some(s) ==> s@ == o.unwrap()@
{ o.as_deref() }
pub trait VRead {}
/// the library call that was handed this sink reported success (ghost; only the kestrel_crypto stubs below establish it)
pub uninterp spec fn lib_accepted(w: Box<dyn VWrite>) -> bool;
pub struct EncryptError;
pub enum PassFileFormat { V1 }
pub mod encrypt {
    use vstd::prelude::*;
    use super::*;
    /// kestrel_crypto::encrypt::pass_encrypt as the CLI calls it (contract: units/crypto.vt; opaque here - only the
    /// provenance of the `salt` ARGUMENT is checked at the call site)
    #[verifier::external_body]
    pub fn pass_encrypt(plaintext: &mut Box<dyn VRead>, ciphertext: &mut Box<dyn VWrite>, password: &[u8], salt: [u8; 32], file_format: PassFileFormat)
        -> (r: Result<(), EncryptError>)
        ensures (r is Ok) == lib_accepted(*final(ciphertext))
    { unimplemented!() }
}

pub enum DecryptError { ChunkLen, ChaPolyDecrypt, UnexpectedData, IORead(vio::Error), IOWrite(vio::Error), Other(String) }
pub mod decrypt {
    use vstd::prelude::*;
    use super::*;
    /// kestrel_crypto::decrypt::pass_decrypt as the CLI calls it (contract: units/crypto.vt; opaque here - only the
    /// provenance of the `password` ARGUMENT is checked at the call site)
    #[verifier::external_body]
    pub fn pass_decrypt(ciphertext: &mut Box<dyn VRead>, plaintext: &mut Box<dyn VWrite>, password: &[u8], file_format: PassFileFormat)
        -> (r: Result<(), DecryptError>)
        ensures (r is Ok) == lib_accepted(*final(plaintext))
    { unimplemented!() }
}
pub enum AsymFileFormat { V1 }
#[verifier::external_body]
pub struct PayloadKey { k: [u8; 32] }
pub mod encrypt_k {
    use vstd::prelude::*;
    use super::*;
    /// kestrel_crypto::encrypt::key_encrypt as the CLI calls it (contract: units/crypto.vt; opaque here - only the
    /// provenance of the key ARGUMENTS is checked at the call site)
    #[verifier::external_body]
    pub fn key_encrypt(plaintext: &mut Box<dyn VRead>, ciphertext: &mut Box<dyn VWrite>, sender: &kestrel_crypto::PrivateKey,
        sender_public: &kestrel_crypto::PublicKey, recipient: &kestrel_crypto::PublicKey, ephemeral: Option<&kestrel_crypto::PrivateKey>,
        ephemeral_public: Option<&kestrel_crypto::PublicKey>, payload_key: Option<&PayloadKey>, file_format: AsymFileFormat)
        -> (r: Result<(), EncryptError>)
        ensures (r is Ok) == lib_accepted(*final(ciphertext))
    { unimplemented!() }
}
pub mod decrypt_k {
    use vstd::prelude::*;
    use super::*;
    #[verifier::external_body]
    pub fn key_decrypt(ciphertext: &mut Box<dyn VRead>, plaintext: &mut Box<dyn VWrite>, recipient: &kestrel_crypto::PrivateKey,
        recipient_public: &kestrel_crypto::PublicKey, file_format: AsymFileFormat) -> (r: Result<kestrel_crypto::PublicKey, DecryptError>)
        ensures r matches Ok(pk) ==> pk.wf(), (r is Ok) == lib_accepted(*final(plaintext))
    { unimplemented!() }
}
/// std::fs::read / String::from_utf8 as open_keyring uses them: total, results unconstrained
#[verifier::external_body]
pub fn v_fs_read(path: PathBuf) -> (r: vio::Result<Vec<u8>>) { unimplemented!() }
pub struct FromUtf8Error;
#[verifier::external_body]
pub fn v_string_from_utf8(v: Vec<u8>) -> (r: Result<String, FromUtf8Error>) { unimplemented!() }
impl PathBuf { pub uninterp spec fn chars(&self) -> Seq<char>; }
#[verifier::external_body]
pub fn v_pathbuf_from_string(s: String) -> (r: PathBuf)
    ensures r.chars() == s@
{ unimplemented!() }
impl From<DecryptError> for AnyhowError { #[verifier::external_body] fn from(e: DecryptError) -> AnyhowError { AnyhowError } }
impl From<EncryptError> for AnyhowError { #[verifier::external_body] fn from(e: EncryptError) -> AnyhowError { AnyhowError } }

// --- std::env::var and passterm as the password prompts use them (rule R1: std::env:: -> venv::)
/// the value of an environment variable exactly as the user supplied it
pub uninterp spec fn env_value(name: Seq<char>) -> Seq<char>;
/// the variable is present and valid Unicode (whatever its value, the empty string included)
pub uninterp spec fn env_set(name: Seq<char>) -> bool;
pub mod venv {
    use vstd::prelude::*;
    use super::*;
    pub struct OsStr0;
    pub enum VarError { NotPresent, NotUnicode(OsStr0) }
    pub struct OsString0;
    impl OsString0 {
        #[verifier::external_body]
        pub fn is_empty(&self) -> (r: bool) { unimplemented!() }
        #[verifier::external_body]
        pub fn len(&self) -> (r: usize) { unimplemented!() }
    }
    /// std::env::var_os: presence and raw value, unconstrained here (only `var` is tied to env_value)
    #[verifier::external_body]
    pub fn var_os(name: &str) -> (r: Option<OsString0>) { unimplemented!() }
    #[verifier::external_body]
    pub fn var(name: &str) -> (r: Result<String, VarError>)
        ensures r matches Ok(s) ==> s@ == env_value(name@), (r is Ok) == super::env_set(name@)
    { unimplemented!() }
}
pub mod passterm {
    use vstd::prelude::*;
    pub use super::{isatty, Stream};
    pub struct Error;
    #[verifier::external_body]
    pub fn prompt_password_tty(prompt: Option<&str>) -> (r: Result<String, Error>) { unimplemented!() }
    /// the prompt text goes to the given stream: standard output only with the permission the key commands have (C08)
    #[verifier::external_body]
    pub fn prompt_password_stdin(prompt: Option<&str>, s: Stream) -> (r: Result<String, Error>)
        requires s is Stdout ==> super::stdout_text_permitted()
    { unimplemented!() }
}
impl From<passterm::Error> for AnyhowError { #[verifier::external_body] fn from(e: passterm::Error) -> AnyhowError { AnyhowError } }
impl vstd::std_specs::convert::FromSpecImpl<passterm::Error> for AnyhowError {
    open spec fn obeys_from_spec() -> bool { false }
    uninterp spec fn from_spec(e: passterm::Error) -> AnyhowError;
}

// --- rule R20: slice::Iter::find with a closure (assumed std meaning: first accepted element, None if none is accepted)
#[verifier::external_body]
pub fn v_iter_find<'a, T, F: Fn(&T) -> bool>(v: &'a Vec<T>, f: F, Ghost(p): Ghost<spec_fn(T) -> bool>) -> (r: Option<&'a T>)
    requires
        forall|x: &T| #[trigger] f.requires((x,)),
        forall|x: &T, b: bool| #[trigger] f.ensures((x,), b) ==> b == p(*x),
    ensures
        r matches Some(k) ==> p(*k) && exists|i: int| 0 <= i < v@.len() && *k == #[trigger] v@[i] && forall|j: int| 0 <= j < i ==> !p(#[trigger] v@[j]),
        r is None ==> forall|i: int| 0 <= i < v@.len() ==> !p(#[trigger] v@[i]),
{ v.iter().find(|x| f(x)) }
pub assume_specification[ str::eq_ignore_ascii_case ](a: &str, b: &str) -> (r: bool);
