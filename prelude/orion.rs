// ---- prelude/orion.rs : assumed contracts of orion 0.17.8, zeroize 1.8, getrandom 0.3 (DESIGN 4.1) ----
// The module names are the aliases the real `use` lines introduce.
pub struct UnknownCryptoError;

pub open spec fn opt_seq(ad: Option<&[u8]>) -> Seq<u8> {
    match ad { Some(a) => a@, None => Seq::<u8>::empty() }
}

pub mod chapoly {
    use vstd::prelude::*;
    use super::*;
    #[verifier::external_body]
    pub struct SecretKey { b: Vec<u8> }
    #[verifier::external_body]
    pub struct Nonce { b: [u8; 12] }
    impl SecretKey {
        pub uninterp spec fn view(&self) -> Seq<u8>;
        #[verifier::external_body]
        pub fn from_slice(s: &[u8]) -> (r: Result<SecretKey, UnknownCryptoError>)
            ensures r is Ok <==> s@.len() == 32, r matches Ok(k) ==> k.view() == s@
        { unimplemented!() }
    }
    impl Nonce {
        pub uninterp spec fn view(&self) -> Seq<u8>;
        #[verifier::external_body]
        pub fn from_slice(s: &[u8]) -> (r: Result<Nonce, UnknownCryptoError>)
            ensures r is Ok <==> s@.len() == 12, r matches Ok(k) ==> k.view() == s@
        { unimplemented!() }
    }
    #[verifier::external_body]
    pub fn seal(secret_key: &SecretKey, nonce: &Nonce, plaintext: &[u8], ad: Option<&[u8]>, dst_out: &mut [u8])
        -> (r: Result<(), UnknownCryptoError>)
        ensures
            final(dst_out)@.len() == old(dst_out)@.len(),
            r is Ok <==> plaintext@.len() <= P_MAX && old(dst_out)@.len() >= plaintext@.len() + 16,
            r is Ok ==> final(dst_out)@.subrange(0, (plaintext@.len() + 16) as int)
                          == spec_seal(secret_key.view(), nonce.view(), opt_seq(ad), plaintext@)
                     && final(dst_out)@.subrange((plaintext@.len() + 16) as int, old(dst_out)@.len() as int)
                          == old(dst_out)@.subrange((plaintext@.len() + 16) as int, old(dst_out)@.len() as int),
    { unimplemented!() }
    #[verifier::external_body]
    pub fn open(secret_key: &SecretKey, nonce: &Nonce, ciphertext_with_tag: &[u8], ad: Option<&[u8]>, dst_out: &mut [u8])
        -> (r: Result<(), UnknownCryptoError>)
        ensures
            final(dst_out)@.len() == old(dst_out)@.len(),
            r is Ok <==> ciphertext_with_tag@.len() <= C_MAX && ciphertext_with_tag@.len() >= 16
                      && old(dst_out)@.len() >= ciphertext_with_tag@.len() - 16
                      && spec_open(secret_key.view(), nonce.view(), opt_seq(ad), ciphertext_with_tag@) is Some,
            r is Ok ==> final(dst_out)@.subrange(0, (ciphertext_with_tag@.len() - 16) as int)
                          == spec_open(secret_key.view(), nonce.view(), opt_seq(ad), ciphertext_with_tag@).unwrap()
                     && final(dst_out)@.subrange((ciphertext_with_tag@.len() - 16) as int, old(dst_out)@.len() as int)
                          == old(dst_out)@.subrange((ciphertext_with_tag@.len() - 16) as int, old(dst_out)@.len() as int),
    { unimplemented!() }
}

pub mod orion_x25519 {
    use vstd::prelude::*;
    use super::*;
    #[verifier::external_body]
    pub struct PrivateKey { b: [u8; 32] }
    #[verifier::external_body]
    pub struct PublicKey { b: [u8; 32] }
    #[verifier::external_body]
    pub struct SharedKey { b: [u8; 32] }
    impl PrivateKey {
        pub uninterp spec fn view(&self) -> Seq<u8>;
        #[verifier::external_body]
        pub fn from_slice(s: &[u8]) -> (r: Result<PrivateKey, UnknownCryptoError>)
            ensures r is Ok <==> s@.len() == 32, r matches Ok(k) ==> k.view() == s@
        { unimplemented!() }
    }
    impl PublicKey {
        pub uninterp spec fn view(&self) -> Seq<u8>;
        #[verifier::external_body]
        pub fn from_slice(s: &[u8]) -> (r: Result<PublicKey, UnknownCryptoError>)
            ensures r is Ok <==> s@.len() == 32, r matches Ok(k) ==> k.view() == s@
        { unimplemented!() }
        /// orion: `impl TryFrom<&PrivateKey> for PublicKey` - scalar multiplication of the base point; cannot fail for a 32-byte key
        #[verifier::external_body]
        pub fn try_from(sk: &PrivateKey) -> (r: Result<PublicKey, UnknownCryptoError>)
            ensures r is Ok, r matches Ok(k) ==> k.to_bytes_spec() == spec_x25519_base(sk.view())
        { unimplemented!() }
        /// canonical encoding of the decoded u-coordinate (differs from the input bytes for non-canonical inputs)
        pub uninterp spec fn to_bytes_spec(&self) -> Seq<u8>;
        #[verifier::external_body]
        pub fn to_bytes(&self) -> (r: [u8; 32])
            ensures r@ == self.to_bytes_spec()
        { unimplemented!() }
    }
    impl SharedKey {
        pub uninterp spec fn view(&self) -> Seq<u8>;
        #[verifier::external_body]
        pub fn unprotected_as_bytes(&self) -> (r: &[u8])
            ensures r@ == self.view()
        { unimplemented!() }
    }
    #[verifier::external_body]
    pub fn key_agreement(private_key: &PrivateKey, public_key: &PublicKey) -> (r: Result<SharedKey, UnknownCryptoError>)
        ensures
            r is Ok <==> spec_x25519(private_key.view(), public_key.view()) is Some,
            r matches Ok(k) ==> Some(k.view()) == spec_x25519(private_key.view(), public_key.view()),
    { unimplemented!() }
}

#[verifier::external_body]
pub struct Digest { b: [u8; 32] }
impl Digest {
    pub uninterp spec fn view(&self) -> Seq<u8>;
    #[verifier::external_body]
    pub fn as_ref(&self) -> (r: &[u8])
        ensures r@ == self.view()
    { unimplemented!() }
}
/// orion's Sha256: one-shot `digest`, and the streaming state (new / update / finalize) with the bytes absorbed so far as ghost view
pub struct Sha256 { pub absorbed: Ghost<Seq<u8>> }
impl Sha256 {
    pub open spec fn view(&self) -> Seq<u8> { self.absorbed@ }
    #[verifier::external_body]
    pub fn new() -> (r: Sha256)
        ensures r@ == Seq::<u8>::empty()
    { unimplemented!() }
    /// Err only when more than 2^61 bytes are hashed in total, or after finalize without reset (not modelled: Ok assumed for slices)
    #[verifier::external_body]
    pub fn update(&mut self, data: &[u8]) -> (r: Result<(), UnknownCryptoError>)
        ensures r is Ok, final(self)@ == old(self)@ + data@
    { unimplemented!() }
    #[verifier::external_body]
    pub fn finalize(&mut self) -> (r: Result<Digest, UnknownCryptoError>)
        ensures r is Ok, r matches Ok(d) ==> d.view() == spec_sha256(old(self)@)
    { unimplemented!() }
    /// orion: Err only when more than 2^61 bytes are hashed, which a slice cannot hold on the 64-bit targets
    #[verifier::external_body]
    pub fn digest(data: &[u8]) -> (r: Result<Digest, UnknownCryptoError>)
        ensures r is Ok, r matches Ok(d) ==> d.view() == spec_sha256(data@)
    { unimplemented!() }
}

pub mod hmac {
    use vstd::prelude::*;
    use super::*;
    #[verifier::external_body]
    pub struct SecretKey { b: Vec<u8> }
    #[verifier::external_body]
    pub struct Tag { b: [u8; 32] }
    pub struct HmacSha256;
    impl SecretKey {
        pub uninterp spec fn view(&self) -> Seq<u8>;
        /// any key length is accepted (keys longer than the block are hashed, shorter ones zero-padded: RFC 2104)
        #[verifier::external_body]
        pub fn from_slice(s: &[u8]) -> (r: Result<SecretKey, UnknownCryptoError>)
            ensures r is Ok, r matches Ok(k) ==> k.view() == s@
        { unimplemented!() }
    }
    impl Tag {
        pub uninterp spec fn view(&self) -> Seq<u8>;
        #[verifier::external_body]
        pub fn unprotected_as_bytes(&self) -> (r: &[u8])
            ensures r@ == self.view()
        { unimplemented!() }
    }
    impl HmacSha256 {
        #[verifier::external_body]
        pub fn hmac(secret_key: &SecretKey, data: &[u8]) -> (r: Result<Tag, UnknownCryptoError>)
            ensures r is Ok, r matches Ok(t) ==> t.view() == spec_hmac(secret_key.view(), data@)
        { unimplemented!() }
    }
}

pub mod hkdf {
    use vstd::prelude::*;
    use super::*;
    #[verifier::external_body]
    pub fn derive_key(salt: &[u8], ikm: &[u8], info: Option<&[u8]>, dst_out: &mut [u8]) -> (r: Result<(), UnknownCryptoError>)
        ensures
            final(dst_out)@.len() == old(dst_out)@.len(),
            r is Ok <==> 1 <= old(dst_out)@.len() <= 8160,
            r is Ok ==> final(dst_out)@ == spec_hkdf(salt@, ikm@, opt_seq(info), old(dst_out)@.len()),
    { unimplemented!() }
}

pub mod pbkdf2 {
    use vstd::prelude::*;
    use super::*;
    #[verifier::external_body]
    pub struct Password { b: Vec<u8> }
    impl Password {
        pub uninterp spec fn view(&self) -> Seq<u8>;
        #[verifier::external_body]
        pub fn from_slice(s: &[u8]) -> (r: Result<Password, UnknownCryptoError>)
            ensures r is Ok, r matches Ok(k) ==> k.view() == s@
        { unimplemented!() }
    }
    #[verifier::external_body]
    pub fn derive_key(password: &Password, salt: &[u8], iterations: usize, dst_out: &mut [u8]) -> (r: Result<(), UnknownCryptoError>)
        ensures
            final(dst_out)@.len() == old(dst_out)@.len(),
            r is Ok <==> iterations >= 1 && 1 <= old(dst_out)@.len() <= 0xffff_ffff * 32,
            r is Ok ==> final(dst_out)@ == spec_pbkdf2(password.view(), salt@, iterations as nat, old(dst_out)@.len()),
    { unimplemented!() }
}

pub mod getrandom {
    use vstd::prelude::*;
    use super::*;
    pub struct Error;
    #[verifier::external_body]
    pub fn fill(dest: &mut [u8]) -> (r: Result<(), Error>)
        ensures
            final(dest)@.len() == old(dest)@.len(),
            r is Ok,   // ASSUMED: the operating system's CSPRNG is available (otherwise the real code panics by design)
            from_csprng(final(dest)@),
    { unimplemented!() }
}

// zeroize 1.8: `Zeroize::zeroize` on byte slices / arrays / Vec overwrites every element with zero
pub trait Zeroize {
    spec fn zeroed(old_self: &Self, new_self: &Self) -> bool;
    fn zeroize(&mut self)
        ensures Self::zeroed(old(self), final(self));
}
impl Zeroize for [u8] {
    open spec fn zeroed(o: &Self, n: &Self) -> bool { n@.len() == o@.len() && all_zero(n@) }
    #[verifier::external_body]
    fn zeroize(&mut self) { unimplemented!() }
}
impl<const N: usize> Zeroize for [u8; N] {
    open spec fn zeroed(o: &Self, n: &Self) -> bool { all_zero(n@) }
    #[verifier::external_body]
    fn zeroize(&mut self) { unimplemented!() }
}
pub trait ZeroizeOnDrop {}

/// zeroize::Zeroizing<Vec<u8>>: a wrapper that derefs to the vector (and zeroizes it when dropped)
pub struct Zeroizing<T> { pub v: T }
impl Zeroizing<Vec<u8>> {
    pub open spec fn view(&self) -> Seq<u8> { self.v@ }
    pub fn new(v: Vec<u8>) -> (r: Zeroizing<Vec<u8>>)
        ensures r@ == v@
    { Zeroizing { v } }
    pub fn as_ref(&self) -> (r: &[u8])
        ensures r@ == self@
    { self.v.as_slice() }
}
impl core::ops::Deref for Zeroizing<Vec<u8>> {
    type Target = Vec<u8>;
    fn deref(&self) -> (r: &Vec<u8>)
        ensures r@ == self@
    { &self.v }
}
impl core::ops::DerefMut for Zeroizing<Vec<u8>> {
    fn deref_mut(&mut self) -> (r: &mut Vec<u8>)
        ensures *r == old(self).v, *final(r) == final(self).v
    { &mut self.v }
}
