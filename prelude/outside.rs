// ---- prelude/outside.rs : plain-Rust impls Verus does not look at (Debug for the stub error types) ----
impl core::fmt::Debug for UnknownCryptoError {
    fn fmt(&self, f: &mut core::fmt::Formatter<'_>) -> core::fmt::Result { f.write_str("UnknownCryptoError") }
}
impl core::fmt::Debug for getrandom::Error {
    fn fmt(&self, f: &mut core::fmt::Formatter<'_>) -> core::fmt::Result { f.write_str("getrandom::Error") }
}
