// ---- prelude/prims.rs : the cryptographic primitives as uninterpreted functions + their output sizes ----

// primitives: uninterpreted.  What they compute (RFC 8439 / 7748 / 5869 / 2104 / FIPS 180-4 /
// RFC 7914 PBKDF2) is assumed of orion, not checked.
pub uninterp spec fn spec_seal(key: Seq<u8>, nonce: Seq<u8>, aad: Seq<u8>, pt: Seq<u8>) -> Seq<u8>;
pub uninterp spec fn spec_open(key: Seq<u8>, nonce: Seq<u8>, aad: Seq<u8>, ct: Seq<u8>) -> Option<Seq<u8>>;
pub uninterp spec fn spec_x25519(k: Seq<u8>, u: Seq<u8>) -> Option<Seq<u8>>;   // None = all-zero shared secret
pub uninterp spec fn spec_x25519_base(k: Seq<u8>) -> Seq<u8>;   // X25519(k, 9): the public key of k
pub uninterp spec fn spec_sha256(data: Seq<u8>) -> Seq<u8>;
pub uninterp spec fn spec_hmac(key: Seq<u8>, data: Seq<u8>) -> Seq<u8>;
pub uninterp spec fn spec_hkdf(salt: Seq<u8>, ikm: Seq<u8>, info: Seq<u8>, len: nat) -> Seq<u8>;
pub uninterp spec fn spec_pbkdf2(pw: Seq<u8>, salt: Seq<u8>, iters: nat, len: nat) -> Seq<u8>;
/// provenance predicate: only getrandom::fill establishes it
pub uninterp spec fn from_csprng(b: Seq<u8>) -> bool;

pub const P_MAX: u64 = 0xffff_ffff * 64;          // orion::hazardous::aead::chacha20poly1305::P_MAX
pub const C_MAX: u64 = 0xffff_ffff * 64 + 16;

pub mod prim_axioms {
use vstd::prelude::*;
use super::*;
// lengths are facts of the primitives' definitions (output sizes), used by exec-level contracts
pub broadcast proof fn axiom_seal_len(key: Seq<u8>, nonce: Seq<u8>, aad: Seq<u8>, pt: Seq<u8>)
    ensures #[trigger] spec_seal(key, nonce, aad, pt).len() == pt.len() + 16
{ admit(); }
pub broadcast proof fn axiom_open_len(key: Seq<u8>, nonce: Seq<u8>, aad: Seq<u8>, ct: Seq<u8>)
    ensures (#[trigger] spec_open(key, nonce, aad, ct)) matches Some(p) ==> ct.len() >= 16 && p.len() == ct.len() - 16 && ct.len() <= C_MAX
{ admit(); }
pub broadcast proof fn axiom_hash_lens(a: Seq<u8>, b: Seq<u8>)
    ensures #[trigger] spec_hmac(a, b).len() == 32
{ admit(); }
pub broadcast proof fn axiom_sha_len(a: Seq<u8>)
    ensures #[trigger] spec_sha256(a).len() == 32
{ admit(); }
pub broadcast proof fn axiom_x25519_len(k: Seq<u8>, u: Seq<u8>)
    ensures (#[trigger] spec_x25519(k, u)) matches Some(s) ==> s.len() == 32
{ admit(); }
pub broadcast proof fn axiom_x25519_base_len(k: Seq<u8>)
    ensures #[trigger] spec_x25519_base(k).len() == 32
{ admit(); }
pub broadcast proof fn axiom_hkdf_len(salt: Seq<u8>, ikm: Seq<u8>, info: Seq<u8>, len: nat)
    ensures #[trigger] spec_hkdf(salt, ikm, info, len).len() == len
{ admit(); }
pub broadcast proof fn axiom_pbkdf2_len(pw: Seq<u8>, salt: Seq<u8>, iters: nat, len: nat)
    ensures #[trigger] spec_pbkdf2(pw, salt, iters, len).len() == len
{ admit(); }
pub broadcast group prim_lens {
    axiom_seal_len, axiom_open_len, axiom_hash_lens, axiom_sha_len, axiom_x25519_len, axiom_x25519_base_len,
    axiom_hkdf_len, axiom_pbkdf2_len,
}

} // mod prim_axioms
pub use prim_axioms::prim_lens;

