// ---- prelude/base.rs : byte codecs, std wrappers (rules R2, R3, R7), sequence helpers ----

pub open spec fn is_prefix(a: Seq<u8>, b: Seq<u8>) -> bool {
    a.len() <= b.len() && forall|i: int| 0 <= i < a.len() ==> a[i] == b[i]
}

pub open spec fn all_zero(s: Seq<u8>) -> bool {
    forall|i: int| 0 <= i < s.len() ==> s[i] == 0u8
}

pub open spec fn zeros(n: nat) -> Seq<u8> {
    Seq::new(n, |i: int| 0u8)
}

// --- defined byte codecs (not assumed: injectivity / round trip are lemmas in spec/bytes_lemmas.rs)
pub open spec fn be32(x: u32) -> Seq<u8> {
    seq![(x >> 24) as u8, ((x >> 16) & 0xff) as u8, ((x >> 8) & 0xff) as u8, (x & 0xff) as u8]
}
pub open spec fn be32_dec(s: Seq<u8>) -> u32 {
    ((s[0] as u32) << 24) | ((s[1] as u32) << 16) | ((s[2] as u32) << 8) | (s[3] as u32)
}
pub open spec fn le32(x: u32) -> Seq<u8> {
    seq![(x & 0xff) as u8, ((x >> 8) & 0xff) as u8, ((x >> 16) & 0xff) as u8, (x >> 24) as u8]
}
pub open spec fn le32_dec(s: Seq<u8>) -> u32 {
    ((s[3] as u32) << 24) | ((s[2] as u32) << 16) | ((s[1] as u32) << 8) | (s[0] as u32)
}
pub open spec fn be64(x: u64) -> Seq<u8> {
    seq![(x >> 56) as u8, ((x >> 48) & 0xff) as u8, ((x >> 40) & 0xff) as u8, ((x >> 32) & 0xff) as u8,
         ((x >> 24) & 0xff) as u8, ((x >> 16) & 0xff) as u8, ((x >> 8) & 0xff) as u8, (x & 0xff) as u8]
}
pub open spec fn le64(x: u64) -> Seq<u8> {
    seq![(x & 0xff) as u8, ((x >> 8) & 0xff) as u8, ((x >> 16) & 0xff) as u8, ((x >> 24) & 0xff) as u8,
         ((x >> 32) & 0xff) as u8, ((x >> 40) & 0xff) as u8, ((x >> 48) & 0xff) as u8, (x >> 56) as u8]
}

// --- rule R2: x.to_be_bytes() etc. (std, assumed to return the documented value)
pub trait VToBytes: Sized {
    type Out;
    spec fn spec_be_bytes(self) -> Seq<u8>;
    spec fn spec_le_bytes(self) -> Seq<u8>;
    spec fn out_view(o: Self::Out) -> Seq<u8>;
    fn v_to_be_bytes(self) -> (r: Self::Out)
        ensures Self::out_view(r) == self.spec_be_bytes();
    fn v_to_le_bytes(self) -> (r: Self::Out)
        ensures Self::out_view(r) == self.spec_le_bytes();
}
impl VToBytes for u32 {
    type Out = [u8; 4];
    open spec fn spec_be_bytes(self) -> Seq<u8> { be32(self) }
    open spec fn spec_le_bytes(self) -> Seq<u8> { le32(self) }
    open spec fn out_view(o: [u8; 4]) -> Seq<u8> { o@ }
    #[verifier::external_body]
    fn v_to_be_bytes(self) -> (r: [u8; 4]) { self.to_be_bytes() }
    #[verifier::external_body]
    fn v_to_le_bytes(self) -> (r: [u8; 4]) { self.to_le_bytes() }
}
impl VToBytes for u64 {
    type Out = [u8; 8];
    open spec fn spec_be_bytes(self) -> Seq<u8> { be64(self) }
    open spec fn spec_le_bytes(self) -> Seq<u8> { le64(self) }
    open spec fn out_view(o: [u8; 8]) -> Seq<u8> { o@ }
    #[verifier::external_body]
    fn v_to_be_bytes(self) -> (r: [u8; 8]) { self.to_be_bytes() }
    #[verifier::external_body]
    fn v_to_le_bytes(self) -> (r: [u8; 8]) { self.to_le_bytes() }
}
#[verifier::external_body]
pub fn u32_from_be_bytes(a: [u8; 4]) -> (r: u32)
    ensures r == be32_dec(a@)
{ u32::from_be_bytes(a) }
#[verifier::external_body]
pub fn u32_from_le_bytes(a: [u8; 4]) -> (r: u32)
    ensures r == le32_dec(a@)
{ u32::from_le_bytes(a) }

// --- rule R3: E.try_into().unwrap() / .expect(..)   (the unwrap obligation is the precondition)
pub trait VTryIntoUnwrap<T> {
    spec fn conv_ok(&self) -> bool;
    spec fn conv_val(&self, r: T) -> bool;
    fn v_try_into_unwrap(&self) -> (r: T)
        requires self.conv_ok()
        ensures self.conv_val(r);
}
impl VTryIntoUnwrap<[u8; 4]> for [u8] {
    open spec fn conv_ok(&self) -> bool { self@.len() == 4 }
    open spec fn conv_val(&self, r: [u8; 4]) -> bool { r@ == self@ }
    #[verifier::external_body]
    fn v_try_into_unwrap(&self) -> (r: [u8; 4]) { self.try_into().unwrap() }
}
impl VTryIntoUnwrap<[u8; 32]> for [u8] {
    open spec fn conv_ok(&self) -> bool { self@.len() == 32 }
    open spec fn conv_val(&self, r: [u8; 32]) -> bool { r@ == self@ }
    #[verifier::external_body]
    fn v_try_into_unwrap(&self) -> (r: [u8; 32]) { self.try_into().unwrap() }
}
impl VTryIntoUnwrap<[u8; 32]> for Vec<u8> {
    open spec fn conv_ok(&self) -> bool { self@.len() == 32 }
    open spec fn conv_val(&self, r: [u8; 32]) -> bool { r@ == self@ }
    #[verifier::external_body]
    fn v_try_into_unwrap(&self) -> (r: [u8; 32]) { self.as_slice().try_into().unwrap() }
}
impl VTryIntoUnwrap<usize> for u32 {
    open spec fn conv_ok(&self) -> bool { true }   // usize is 64 bits (global size_of usize == 8)
    open spec fn conv_val(&self, r: usize) -> bool { r == *self }
    #[verifier::external_body]
    fn v_try_into_unwrap(&self) -> (r: usize) { (*self).try_into().unwrap() }
}

// --- rule R7: a.clone_from(&b) on Vec<u8>
#[verifier::external_body]
pub fn vec_clone_from(a: &mut Vec<u8>, b: &Vec<u8>)
    ensures final(a)@ == b@
{ a.clone_from(b) }

// --- rule R13: std::cmp::max on usize
#[verifier::external_body]
pub fn v_max_usize(a: usize, b: usize) -> (r: usize)
    ensures r == (if a >= b { a } else { b })
{ std::cmp::max(a, b) }

// --- std: equality of byte slices / arrays is element-wise (PartialEq for [T], [T; N]); vstd leaves eq_spec abstract
pub mod eq_axioms {
use vstd::prelude::*;
use vstd::std_specs::cmp::PartialEqSpec;
pub broadcast proof fn axiom_slice_eq_array<const N: usize>(a: &[u8], b: &[u8; N])
    ensures #[trigger] a.eq_spec(b) == (a@ == b@)
{ admit(); }
pub broadcast proof fn axiom_refslice_eq_array<const N: usize>(a: &[u8], b: &[u8; N])
    ensures #[trigger] <&[u8] as PartialEqSpec<[u8; N]>>::eq_spec(&a, b) == (a@ == b@)
{ admit(); }
pub broadcast proof fn axiom_slice_eq_slice(a: &[u8], b: &[u8])
    ensures #[trigger] a.eq_spec(b) == (a@ == b@)
{ admit(); }
pub broadcast proof fn axiom_string_eq(a: &String, b: &String)
    ensures #[trigger] a.eq_spec(b) == (a@ == b@)
{ admit(); }
pub broadcast group slice_eq { axiom_slice_eq_array, axiom_refslice_eq_array, axiom_slice_eq_slice, axiom_string_eq }
}
pub use eq_axioms::slice_eq;

// --- std functions vstd has no specification for (documented behaviour, assumed)
pub assume_specification<T: Clone>[ <[T]>::to_vec ](s: &[T]) -> (r: Vec<T>)
    ensures r@.len() == s@.len(), forall|i: int| 0 <= i < s@.len() ==> cloned::<T>(s@[i], #[trigger] r@[i]);
pub assume_specification<T, const N: usize>[ <[T; N] as AsRef<[T]>>::as_ref ](a: &[T; N]) -> (r: &[T])
    ensures r@ == a@;
pub assume_specification<T, A: core::alloc::Allocator>[ <Vec<T, A> as AsRef<[T]>>::as_ref ](a: &Vec<T, A>) -> (r: &[T])
    ensures r@ == a@;
pub proof fn lemma_to_vec_u8(s: Seq<u8>, r: Seq<u8>)
    requires r.len() == s.len(), forall|i: int| 0 <= i < s.len() ==> cloned::<u8>(s[i], #[trigger] r[i])
    ensures r == s
{ assert(r =~= s); }

// --- str::as_bytes: the UTF-8 encoding (uninterpreted), which for ASCII text is the code points themselves
pub uninterp spec fn str_bytes(s: Seq<char>) -> Seq<u8>;
pub broadcast proof fn axiom_str_bytes_ascii(s: Seq<char>)
    requires forall|i: int| 0 <= i < s.len() ==> (s[i] as u32) < 128
    ensures #[trigger] str_bytes(s).len() == s.len(), forall|i: int| 0 <= i < s.len() ==> str_bytes(s)[i] == s[i] as u8
{ admit(); }
#[verifier::external_body]
pub fn v_str_as_bytes(s: &str) -> (r: &[u8])
    ensures r@ == str_bytes(s@)
{ s.as_bytes() }

// --- rule R10: Display-based to_string of an error value (diagnostic text; value unconstrained)
#[verifier::external_body]
pub fn v_to_string<T>(t: &T) -> (r: String)
{ unimplemented!() }

// --- str / String helpers (rule R17): documented std behaviour, assumed
#[verifier::external_body]
pub fn v_string_from(s: &str) -> (r: String)
    ensures r@ == s@
{ s.into() }
#[verifier::external_body]
pub fn v_str_len(s: &str) -> (r: usize)
    ensures r == str_bytes(s@).len()
{ s.len() }
pub broadcast proof fn axiom_str_bytes_empty(s: Seq<char>)
    ensures (#[trigger] str_bytes(s).len() == 0) <==> s.len() == 0
{ admit(); }
#[verifier::external_body]
pub fn v_string_eq(a: &String, b: &String) -> (r: bool)
    ensures r == (a@ == b@)
{ a == b }
#[verifier::external_body]
pub fn v_min_usize(a: usize, b: usize) -> (r: usize)
    ensures r == (if a <= b { a } else { b })
{ std::cmp::min(a, b) }

// --- further std string functions: total, results unconstrained (so that edited code using them stays within reach)
pub assume_specification[ String::truncate ](s: &mut String, new_len: usize);
pub assume_specification[ str::trim_end ](s: &str) -> (r: &str);
pub assume_specification[ str::trim_start ](s: &str) -> (r: &str);
pub assume_specification[ str::trim ](s: &str) -> (r: &str);
pub assume_specification[ str::to_lowercase ](s: &str) -> (r: String);
pub assume_specification<'a>[ <core::str::Chars<'a> as Iterator>::count ](c: core::str::Chars<'a>) -> (r: usize);
pub assume_specification[ String::as_bytes ](s: &String) -> (r: &[u8]) ensures r@ == str_bytes(s@);
pub assume_specification<T>[ Option::<T>::or ](a: Option<T>, b: Option<T>) -> (r: Option<T>) ensures r == (if a is Some { a } else { b });
pub assume_specification<T: core::ops::Deref>[ Option::<T>::as_deref ](o: &Option<T>) -> (r: Option<&T::Target>) ensures (r is Some) == (o is Some);
// generic over core::str::pattern::Pattern (unstable trait name, hence #![feature(pattern)] in the unit headers): total, results unconstrained
#[verifier::allow(undeclared_external_trait)]
pub assume_specification<'a, P: core::str::pattern::Pattern>[ str::trim_end_matches::<P> ](s: &'a str, p: P) -> (r: &'a str) where for<'b> P::Searcher<'b>: core::str::pattern::ReverseSearcher<'b>;
#[verifier::allow(undeclared_external_trait)]
pub assume_specification<'a, P: core::str::pattern::Pattern>[ str::trim_start_matches::<P> ](s: &'a str, p: P) -> (r: &'a str);
#[verifier::allow(undeclared_external_trait)]
pub assume_specification<P: core::str::pattern::Pattern>[ str::starts_with::<P> ](s: &str, p: P) -> (r: bool);
#[verifier::allow(undeclared_external_trait)]
pub assume_specification<P: core::str::pattern::Pattern>[ str::ends_with::<P> ](s: &str, p: P) -> (r: bool) where for<'b> P::Searcher<'b>: core::str::pattern::ReverseSearcher<'b>;
#[verifier::allow(undeclared_external_trait)]
pub assume_specification<P: core::str::pattern::Pattern>[ str::contains::<P> ](s: &str, p: P) -> (r: bool);
pub assume_specification[ std::thread::panicking ]() -> (r: bool);
pub assume_specification[ usize::leading_zeros ](x: usize) -> (r: u32) ensures r <= 64;
pub assume_specification[ <u32 as From<bool>>::from ](b: bool) -> (r: u32) ensures r == (if b { 1u32 } else { 0u32 });
pub assume_specification[ <u8 as From<bool>>::from ](b: bool) -> (r: u8) ensures r == (if b { 1u8 } else { 0u8 });
pub assume_specification[ <u64 as From<bool>>::from ](b: bool) -> (r: u64) ensures r == (if b { 1u64 } else { 0u64 });
pub assume_specification[ <usize as From<bool>>::from ](b: bool) -> (r: usize) ensures r == (if b { 1usize } else { 0usize });
