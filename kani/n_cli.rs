//@ append src/cli/src/keyring.rs
//@ native verif_oracle_keyring_parse "bounded stand-in / witness finder (C17, C09): keyrings of 1..4 entries written by the real serialize_key (names incl. '=', spaces, 128-byte ASCII and multi-byte names; with and without PrivateKey) parse back to exactly the entries written, in order; the three lines of a section parse in every order; 17 kinds of malformed keyring (incl. a second PublicKey / PrivateKey line in a section) (duplicate name / public key at every pair of positions among 4 entries, 129-byte names with fewer than 129 characters, missing fields, wrong key lengths, stray lines) are rejected; every truncation, line deletion, line duplication and a 6-character substitution at every third position of a two-entry keyring, and a 2-, 3- and 4-byte character at every byte offset 0..70 of every kind of line, neither panics nor yields an entry violating the accepted-entry invariant, and the accepted keys decode without panic"
//@ native verif_oracle_lock_format "bounded stand-in / witness finder (C15, C16): for password lengths 0, 1, 64, 65, 100 the real lock_private_key output is base64(version || salt || ChaCha20-Poly1305(scrypt(pw, salt, 32768, 8, 1, 32), nonce 0, key, aad = version)) composed independently from the crate's primitives, unlocks to the same key, and is rejected under an unrelated password and after a bit flip in the version (both low and high bit), the salt, the ciphertext and the tag"
// Native oracles on the REAL CLI code.  Never counted as proved; a disagreement is a concrete failing input.
#[cfg(test)]
mod verif_o_cli {
    use super::*;

    fn pk(i: u8) -> EncodedPk { Keyring::encode_public_key(&PublicKey::try_from(&[i; 32][..]).unwrap()) }
    fn sk(i: u8) -> EncodedSk {
        let mut b = vec![0u8; 84];
        b[..4].copy_from_slice(&PRIVATE_KEY_VERSION);
        for j in 4..84 { b[j] = i.wrapping_mul(31).wrapping_add(j as u8); }
        EncodedSk::try_from(Base64::encode_to_string(&b).unwrap().as_str()).unwrap()
    }
    fn entry(name: &str, p: &EncodedPk, s: Option<&EncodedSk>) -> String {
        match s {
            Some(s) => Keyring::serialize_key(name, p, s),
            None => format!("[Key]\nName = {}\nPublicKey = {}\n", name, p.as_str()),
        }
    }
    /// what every accepted entry satisfies (the safety half proved by Verus), re-checked on concrete results
    fn entry_ok(k: &Key) -> bool {
        let n = k.name.len();
        let pkb = Base64::decode_to_vec(k.public_key.as_str(), None);
        let skb = k.private_key.as_ref().map(|s| Base64::decode_to_vec(s.as_str(), None));
        n >= 1 && n <= 128 && matches!(pkb, Ok(ref v) if v.len() == 36) && match skb { None => true, Some(Ok(ref v)) => v.len() == 84, _ => false }
    }
    fn ring_ok(r: &Keyring) -> bool {
        for (i, a) in r.keys.iter().enumerate() {
            if !entry_ok(a) { return false; }
            for b in r.keys.iter().skip(i + 1) {
                if a.name == b.name || a.public_key.as_str() == b.public_key.as_str() { return false; }
            }
        }
        true
    }

    #[test]
    fn verif_oracle_keyring_parse() {
        let mut n = 0u32; let mut bad = 0u32; let mut first: Option<String> = None;
        let mut fail = |n_bad: &mut u32, first: &mut Option<String>, what: String| { *n_bad += 1; if first.is_none() { *first = Some(what); } };
        let long_ascii = "n".repeat(128);
        let long_multi = "\u{e4}".repeat(64);          // 64 characters, 128 bytes
        let names: Vec<&str> = vec!["a", "Bobby Bobertson", "x=y = z", long_ascii.as_str(), long_multi.as_str(), "[Key] holder", "Name", "#1"];
        // 1. write / parse round trip
        for cnt in 1..=4usize { for start in 0..names.len() { for with_sk in 0..3u8 {
            n += 1;
            let mut cfg = String::new(); let mut exp: Vec<(String, String, Option<String>)> = Vec::new();
            for j in 0..cnt {
                let nm = names[(start + 3 * j) % names.len()];
                if exp.iter().any(|e| e.0 == nm) { continue; }
                let p = pk((start * 4 + j) as u8 + 1);
                let s = if with_sk == 0 || (with_sk == 2 && j % 2 == 0) { Some(sk(j as u8)) } else { None };
                cfg.push_str(&entry(nm, &p, s.as_ref()));
                if j % 2 == 1 { cfg.push_str("\n# a comment\n"); }
                exp.push((nm.to_string(), p.as_str().to_string(), s.map(|x| x.as_str().to_string())));
            }
            let r = std::panic::catch_unwind(|| Keyring::new(&cfg));
            match r {
                Err(_) => fail(&mut bad, &mut first, format!("PANIC parsing a keyring written by serialize_key: {:?}", cfg)),
                Ok(Err(e)) => fail(&mut bad, &mut first, format!("a keyring written by serialize_key is rejected ({:?}): {:?}", e, cfg)),
                Ok(Ok(ring)) => {
                    let got: Vec<(String, String, Option<String>)> = ring.keys.iter().map(|k| (k.name.clone(), k.public_key.as_str().to_string(), k.private_key.as_ref().map(|s| s.as_str().to_string()))).collect();
                    if got != exp { fail(&mut bad, &mut first, format!("parsed entries differ from the entries written: wrote {:?}, parsed {:?}", exp, got)); }
                    else {
                        for e in exp.iter() {
                            let byname = ring.get_key(&e.0).map(|k| k.public_key.as_str().to_string());
                            let bykey = ring.get_name_from_key(&EncodedPk::try_from(e.1.as_str()).unwrap());
                            if byname.as_deref() != Some(e.1.as_str()) || bykey.as_deref() != Some(e.0.as_str()) {
                                fail(&mut bad, &mut first, format!("lookup of entry {:?} returns {:?} / {:?}", e.0, byname, bykey)); break;
                            }
                        }
                    }
                }
            }
        } } }
        // 1b. names differing only in case, or one a prefix of the other, are different names: each lookup finds its own entry
        {
            n += 1;
            let nm = ["Bob", "bob", "BOB", "bobby", "bo"];
            let mut cfg = String::new();
            for (j, x) in nm.iter().enumerate() { cfg.push_str(&entry(x, &pk(40 + j as u8), None)); }
            match std::panic::catch_unwind(|| Keyring::new(&cfg)) {
                Ok(Ok(ring)) => {
                    for (j, x) in nm.iter().enumerate() {
                        let got = ring.get_key(x).map(|k| (k.name.clone(), k.public_key.as_str().to_string()));
                        if got != Some((x.to_string(), pk(40 + j as u8).as_str().to_string())) {
                            fail(&mut bad, &mut first, format!("keyring with names {:?}: lookup of {:?} returns entry {:?}", nm, x, got.map(|g| g.0))); break;
                        }
                        let back = ring.get_name_from_key(&pk(40 + j as u8));
                        if back.as_deref() != Some(*x) { fail(&mut bad, &mut first, format!("keyring with names {:?}: lookup of the public key of {:?} returns {:?}", nm, x, back)); break; }
                    }
                }
                other => fail(&mut bad, &mut first, format!("keyring with the distinct names {:?} is not accepted: {}", nm, if other.is_err() { "PANIC" } else { "rejected" })),
            }
        }
        // 1c. the order of the lines inside a section does not matter: every permutation of Name / PublicKey / PrivateKey parses
        {
            let lines = [format!("Name = perm"), format!("PublicKey = {}", pk(50).as_str()), format!("PrivateKey = {}", sk(5).as_str())];
            for perm in [[0usize, 1, 2], [0, 2, 1], [1, 0, 2], [1, 2, 0], [2, 0, 1], [2, 1, 0]] {
                n += 1;
                let cfg = format!("[Key]\n{}\n{}\n{}\n", lines[perm[0]], lines[perm[1]], lines[perm[2]]);
                match std::panic::catch_unwind(|| Keyring::new(&cfg)) {
                    Ok(Ok(ring)) if ring.keys.len() == 1 && ring.keys[0].name == "perm" && ring.keys[0].public_key.as_str() == pk(50).as_str()
                        && ring.keys[0].private_key.as_ref().map(|x| x.as_str().to_string()) == Some(sk(5).as_str().to_string()) => {}
                    other => fail(&mut bad, &mut first, format!("section with its lines in the order {:?} (0 Name, 1 PublicKey, 2 PrivateKey) is {}", perm, match other { Err(_) => "a PANIC", Ok(Err(_)) => "rejected", Ok(Ok(_)) => "parsed to a different entry" })),
                }
            }
        }
        // 2. malformed keyrings are rejected
        let mut rejects: Vec<(String, String)> = Vec::new();
        let base: Vec<&str> = vec!["carol", "alice", "dave", "bob"];
        for i in 0..4 { for j in 0..4 { if i != j {
            // duplicate name at positions i, j (different keys)
            let mut cfg = String::new();
            for k in 0..4 { let nm = if k == j { base[i] } else { base[k] }; cfg.push_str(&entry(nm, &pk(10 + k as u8), Some(&sk(k as u8)))); }
            rejects.push((format!("duplicate name at entries {} and {}", i, j), cfg));
            // duplicate public key at positions i, j (different names)
            let mut cfg = String::new();
            for k in 0..4 { let p = if k == j { pk(10 + i as u8) } else { pk(10 + k as u8) }; cfg.push_str(&entry(base[k], &p, None)); }
            rejects.push((format!("duplicate public key at entries {} and {}", i, j), cfg));
        } } }
        rejects.push(("129-byte ASCII name".into(), entry(&"n".repeat(129), &pk(1), None)));
        rejects.push(("name of 65 two-byte characters (130 bytes)".into(), entry(&"\u{e4}".repeat(65), &pk(1), None)));
        rejects.push(("name of 43 three-byte characters (129 bytes)".into(), entry(&"\u{20ac}".repeat(43), &pk(1), None)));
        rejects.push(("empty name".into(), format!("[Key]\nName = \nPublicKey = {}\n", pk(1).as_str())));
        rejects.push(("section without PublicKey".into(), format!("[Key]\nName = a\n[Key]\nName = b\nPublicKey = {}\n", pk(1).as_str())));
        rejects.push(("section without Name".into(), format!("[Key]\nPublicKey = {}\n", pk(1).as_str())));
        rejects.push(("35-byte public key".into(), format!("[Key]\nName = a\nPublicKey = {}\n", Base64::encode_to_string(&[7u8; 35]).unwrap())));
        rejects.push(("37-byte public key".into(), format!("[Key]\nName = a\nPublicKey = {}\n", Base64::encode_to_string(&[7u8; 37]).unwrap())));
        rejects.push(("83-byte private key".into(), format!("[Key]\nName = a\nPublicKey = {}\nPrivateKey = {}\n", pk(1).as_str(), Base64::encode_to_string(&[7u8; 83]).unwrap())));
        rejects.push(("85-byte private key".into(), format!("[Key]\nName = a\nPublicKey = {}\nPrivateKey = {}\n", pk(1).as_str(), Base64::encode_to_string(&[7u8; 85]).unwrap())));
        rejects.push(("Name before any section".into(), format!("Name = a\n[Key]\nName = b\nPublicKey = {}\n", pk(1).as_str())));
        rejects.push(("stray line".into(), format!("[Key]\nName = b\nPublicKey = {}\nhello\n", pk(1).as_str())));
        rejects.push(("two Name lines in one section".into(), format!("[Key]\nName = b\nName = c\nPublicKey = {}\n", pk(1).as_str())));
        rejects.push(("two PublicKey lines in one section".into(), format!("[Key]\nName = b\nPublicKey = {}\nPublicKey = {}\n", pk(1).as_str(), pk(2).as_str())));
        rejects.push(("two PublicKey lines before a PrivateKey line".into(), format!("[Key]\nName = b\nPublicKey = {}\nPublicKey = {}\nPrivateKey = {}\n", pk(1).as_str(), pk(2).as_str(), sk(1).as_str())));
        rejects.push(("two PrivateKey lines in one section".into(), format!("[Key]\nName = b\nPublicKey = {}\nPrivateKey = {}\nPrivateKey = {}\n", pk(1).as_str(), sk(1).as_str(), sk(2).as_str())));
        rejects.push(("no section at all".into(), "# nothing here\n".to_string()));
        for (what, cfg) in rejects.iter() {
            n += 1;
            match std::panic::catch_unwind(|| Keyring::new(cfg)) {
                Err(_) => fail(&mut bad, &mut first, format!("PANIC on malformed keyring ({}): {:?}", what, cfg)),
                Ok(Ok(r)) => fail(&mut bad, &mut first, format!("malformed keyring accepted ({}): {} entries from {:?}", what, r.keys.len(), cfg)),
                Ok(Err(_)) => {}
            }
        }
        // 3. mutated text: no panic, and whatever is accepted satisfies the accepted-entry invariant and decodes
        let good = format!("{}\n# note\n{}", entry("alice", &pk(1), Some(&sk(1))), entry("Bobby Bobertson", &pk(2), None));
        let mut muts: Vec<String> = Vec::new();
        for (i, _) in good.char_indices() { muts.push(good[..i].to_string()); }
        let lines: Vec<&str> = good.lines().collect();
        for i in 0..lines.len() {
            let mut l = lines.clone(); l.remove(i); muts.push(l.join("\n"));
            let mut l = lines.clone(); l.insert(i, lines[i]); muts.push(l.join("\n"));
        }
        let chars: Vec<char> = good.chars().collect();
        for i in (0..chars.len()).step_by(3) { for c in ['=', '[', '\t', ' ', '#', '\u{e9}'] {
            let mut m = chars.clone(); m[i] = c; muts.push(m.into_iter().collect());
        } }
        // multi-byte characters at every byte offset 0..70 of every kind of line (byte-offset slicing of UTF-8 text panics
        // off a character boundary)
        for prefix in ["", "Name = ", "PublicKey = ", "PrivateKey = ", "# ", "[Key]", "\t "] {
            for k in 0..70usize { for ch in ["\u{e9}", "\u{20ac}", "\u{1f511}"] {
                let line = format!("{}{}{}{}", prefix, "a".repeat(k), ch, "b".repeat(40));
                muts.push(format!("{}{}\n", entry("alice", &pk(1), None), line));
                if k % 7 == 0 { muts.push(format!("{}\n{}", line, entry("alice", &pk(1), None))); }
            } }
        }
        for cfg in muts.iter() {
            n += 1;
            let r = std::panic::catch_unwind(|| {
                match Keyring::new(cfg) {
                    Ok(ring) => {
                        let ok = ring_ok(&ring);
                        for k in ring.keys.iter() {
                            let _ = Keyring::decode_public_key(&k.public_key);
                            if let Some(s) = k.private_key.as_ref() { let _ = s.as_bytes(); }
                        }
                        ok
                    }
                    Err(_) => true,
                }
            });
            match r {
                Err(_) => fail(&mut bad, &mut first, format!("PANIC on keyring text {:?}", cfg)),
                Ok(false) => fail(&mut bad, &mut first, format!("accepted keyring violates the entry invariant (name 1..128 bytes, 36-byte public key, 84-byte private key, distinct names and keys): {:?}", cfg)),
                Ok(true) => {}
            }
        }
        println!("VERIF_ORACLE verif_oracle_keyring_parse cases={} disagreements={} first={:?}", n, bad, first);
        assert!(bad == 0, "keyring parser disagrees in {} of {} cases; first: {:?}", bad, n, first);
    }

    #[test]
    fn verif_oracle_lock_format() {
        let mut n = 0u32; let mut bad = 0u32; let mut first: Option<String> = None;
        let secret: Vec<u8> = (0..32u8).map(|i| i.wrapping_mul(9).wrapping_add(1)).collect();
        let key = PrivateKey::try_from(secret.as_slice()).unwrap();
        let pwbuf: Vec<u8> = (0..100u8).map(|i| b'a' + (i % 26)).collect();
        for (t, pl) in [0usize, 1, 64, 65, 100].iter().enumerate() {
            n += 1;
            let pw = &pwbuf[..*pl];
            let mut salt = [0u8; 32]; for j in 0..32 { salt[j] = (t as u8) * 16 + j as u8; }
            let locked = Keyring::lock_private_key(&key, pw, salt);
            let blob = Base64::decode_to_vec(locked.as_str(), None).unwrap_or_default();
            let k = kestrel_crypto::scrypt(pw, &salt, 32768, 8, 1, 32);
            let mut exp = Vec::new();
            exp.extend_from_slice(&[0x65, 0x67, 0x6b, 0x30]); exp.extend_from_slice(&salt);
            exp.extend_from_slice(&kestrel_crypto::chapoly_encrypt_ietf(&k, &[0u8; 12], &secret, &[0x65, 0x67, 0x6b, 0x30]));
            if blob != exp {
                bad += 1; if first.is_none() { first = Some(format!("lock_private_key(password of {} bytes 'abc...', salt {:02x}..) is not version || salt || AEAD(scrypt(password, salt), key): got {} bytes {:02x?}...", pl, salt[0], blob.len(), &blob[..blob.len().min(8)])); }
                continue;
            }
            match std::panic::catch_unwind(|| Keyring::unlock_private_key(&locked, pw)) {
                Ok(Ok(back)) if back.as_bytes() == secret.as_slice() => {}
                other => { bad += 1; if first.is_none() { first = Some(format!("unlock(lock(key, password of {} bytes)) does not return the key: {}", pl, match other { Err(_) => "PANIC".to_string(), Ok(Err(e)) => format!("{:?}", e), Ok(Ok(_)) => "a different key".to_string() })); } }
            }
        }
        // rejection: unrelated password, and one bit flipped in each field (each costs one scrypt, so one password only)
        let pw = b"correct horse"; let salt = [0x5au8; 32];
        let locked = Keyring::lock_private_key(&key, pw, salt);
        let blob = Base64::decode_to_vec(locked.as_str(), None).unwrap();
        n += 1;
        if let Ok(Ok(_)) = std::panic::catch_unwind(|| Keyring::unlock_private_key(&locked, b"correct horsf")) {
            bad += 1; if first.is_none() { first = Some("a locked key unlocks under the unrelated password 'correct horsf'".to_string()); }
        }
        for (pos, bit, what) in [(3usize, 0u8, "version (low bit of byte 3)"), (0, 7, "version (high bit of byte 0)"), (4, 0, "salt"), (36, 0, "ciphertext"), (83, 7, "tag")] {
            n += 1;
            let mut m = blob.clone(); m[pos] ^= 1 << bit;
            let enc = Base64::encode_to_string(&m).unwrap();
            let r = std::panic::catch_unwind(|| match EncodedSk::try_from(enc.as_str()) { Ok(e) => Keyring::unlock_private_key(&e, pw).is_ok(), Err(_) => false });
            match r {
                Ok(false) => {}
                Ok(true) => { bad += 1; if first.is_none() { first = Some(format!("a locked key with one bit flipped in the {} still unlocks", what)); } }
                Err(_) => { bad += 1; if first.is_none() { first = Some(format!("PANIC unlocking a locked key with one bit flipped in the {}", what)); } }
            }
        }
        println!("VERIF_ORACLE verif_oracle_lock_format cases={} disagreements={} first={:?}", n, bad, first);
        assert!(bad == 0, "locked-key format disagrees in {} of {} cases; first: {:?}", bad, n, first);
    }
}
