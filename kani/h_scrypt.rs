//@ append src/crypto/src/scrypt.rs
//@ harness salsa_xor_is_rfc7914 complete "all 2x16 32-bit words; fixed-trip loops fully unwound (unwinding assertions on)" unwind=17
//@ xharness-superseded block_mix_is_rfc7914 bounded "r in {1,2}, all block contents; Salsa20/8 replaced on both sides by one cheap model (salsa_xor itself: harness salsa_xor_is_rfc7914)" unwind=18 stubs=1
//@ xharness-superseded smix_is_rfc7914_romix bounded "r = 1, N in {2,4}, all block contents; Salsa20/8 replaced on both sides by one cheap model" unwind=34 stubs=1
// RFC 7914 transcriptions (sections 3, 4, 5) used as the oracle for the real scrypt.rs functions.
// block_mix / smix are now proved UNBOUNDED by Verus (units/scrypt_inner.vtinc); their bounded Kani harnesses below are
// kept for reference but no longer registered (block_mix: 17 min; smix: did not finish in 20 min).
#[cfg(kani)]
#[allow(dead_code, non_snake_case)]
mod verif_h_scrypt {
    use super::*;

    fn rotl(a: u32, b: u32) -> u32 { (a << b) | (a >> (32 - b)) }

    /// RFC 7914 section 3, salsa20_word_specification (the reference C code, transcribed)
    fn ref_salsa20_8(inp: &[u32; 16]) -> [u32; 16] {
        let mut x = *inp;
        let mut i = 8;
        while i > 0 {
            x[ 4] ^= rotl(x[ 0].wrapping_add(x[12]), 7);  x[ 8] ^= rotl(x[ 4].wrapping_add(x[ 0]), 9);
            x[12] ^= rotl(x[ 8].wrapping_add(x[ 4]),13);  x[ 0] ^= rotl(x[12].wrapping_add(x[ 8]),18);
            x[ 9] ^= rotl(x[ 5].wrapping_add(x[ 1]), 7);  x[13] ^= rotl(x[ 9].wrapping_add(x[ 5]), 9);
            x[ 1] ^= rotl(x[13].wrapping_add(x[ 9]),13);  x[ 5] ^= rotl(x[ 1].wrapping_add(x[13]),18);
            x[14] ^= rotl(x[10].wrapping_add(x[ 6]), 7);  x[ 2] ^= rotl(x[14].wrapping_add(x[10]), 9);
            x[ 6] ^= rotl(x[ 2].wrapping_add(x[14]),13);  x[10] ^= rotl(x[ 6].wrapping_add(x[ 2]),18);
            x[ 3] ^= rotl(x[15].wrapping_add(x[11]), 7);  x[ 7] ^= rotl(x[ 3].wrapping_add(x[15]), 9);
            x[11] ^= rotl(x[ 7].wrapping_add(x[ 3]),13);  x[15] ^= rotl(x[11].wrapping_add(x[ 7]),18);
            x[ 1] ^= rotl(x[ 0].wrapping_add(x[ 3]), 7);  x[ 2] ^= rotl(x[ 1].wrapping_add(x[ 0]), 9);
            x[ 3] ^= rotl(x[ 2].wrapping_add(x[ 1]),13);  x[ 0] ^= rotl(x[ 3].wrapping_add(x[ 2]),18);
            x[ 6] ^= rotl(x[ 5].wrapping_add(x[ 4]), 7);  x[ 7] ^= rotl(x[ 6].wrapping_add(x[ 5]), 9);
            x[ 4] ^= rotl(x[ 7].wrapping_add(x[ 6]),13);  x[ 5] ^= rotl(x[ 4].wrapping_add(x[ 7]),18);
            x[11] ^= rotl(x[10].wrapping_add(x[ 9]), 7);  x[ 8] ^= rotl(x[11].wrapping_add(x[10]), 9);
            x[ 9] ^= rotl(x[ 8].wrapping_add(x[11]),13);  x[10] ^= rotl(x[ 9].wrapping_add(x[ 8]),18);
            x[12] ^= rotl(x[15].wrapping_add(x[14]), 7);  x[13] ^= rotl(x[12].wrapping_add(x[15]), 9);
            x[14] ^= rotl(x[13].wrapping_add(x[12]),13);  x[15] ^= rotl(x[14].wrapping_add(x[13]),18);
            i -= 2;
        }
        let mut out = [0u32; 16];
        let mut k = 0;
        while k < 16 { out[k] = x[k].wrapping_add(inp[k]); k += 1; }
        out
    }

    #[kani::proof]
    #[kani::unwind(17)]
    fn salsa_xor_is_rfc7914() {
        let tmp0: [u32; 16] = kani::any();
        let inn: [u32; 16] = kani::any();
        let mut tmp = tmp0;
        let mut out = [0u32; 16];
        salsa_xor(&mut tmp, &inn, &mut out);
        let mut t = [0u32; 16];
        let mut k = 0;
        while k < 16 { t[k] = tmp0[k] ^ inn[k]; k += 1; }
        let expect = ref_salsa20_8(&t);
        let i: usize = kani::any();
        kani::assume(i < 16);
        assert!(out[i] == expect[i], "salsa_xor: out differs from Salsa20/8(tmp ^ in)");
        assert!(tmp[i] == expect[i], "salsa_xor: tmp differs from Salsa20/8(tmp ^ in)");
    }

    /// cheap stand-in for Salsa20/8(tmp ^ inn) used on BOTH sides of the structural harnesses
    pub fn stub_salsa_xor(tmp: &mut [u32], inn: &[u32], out: &mut [u32]) {
        let mut k = 0;
        while k < 16 {
            let v = (tmp[k] ^ inn[k]).rotate_left(5).wrapping_add(0x9e37_79b9u32.wrapping_mul(k as u32 + 1)) ^ tmp[(k + 1) % 16];
            out[k] = v;
            k += 1;
        }
        k = 0;
        while k < 16 { tmp[k] = out[k]; k += 1; }
    }

    /// RFC 7914 section 4 scryptBlockMix on 2r 16-word blocks, with H = the crate's salsa_xor
    fn ref_block_mix(b: &[u32; 64], r: usize) -> [u32; 64] {
        let mut x = [0u32; 16];
        let mut k = 0;
        while k < 16 { x[k] = b[(2 * r - 1) * 16 + k]; k += 1; }
        let mut y = [0u32; 64];
        let mut i = 0;
        while i < 2 * r {
            let mut o = [0u32; 16];
            salsa_xor(&mut x, &b[i * 16..i * 16 + 16], &mut o);     // T = X xor B[i]; X = Salsa(T)
            k = 0;
            while k < 16 { y[i * 16 + k] = x[k]; k += 1; }            // Y[i] = X
            i += 1;
        }
        // B' = Y[0], Y[2], ..., Y[2r-2], Y[1], Y[3], ..., Y[2r-1]
        let mut out = [0u32; 64];
        i = 0;
        while i < r {
            k = 0;
            while k < 16 {
                out[i * 16 + k] = y[(2 * i) * 16 + k];
                out[(r + i) * 16 + k] = y[(2 * i + 1) * 16 + k];
                k += 1;
            }
            i += 1;
        }
        out
    }

    #[kani::proof]
    #[kani::unwind(18)]
    #[kani::stub(salsa_xor, stub_salsa_xor)]
    fn block_mix_is_rfc7914() {
        let r: usize = if kani::any() { 1 } else { 2 };
        let inn: [u32; 64] = kani::any();
        let mut tmp = [0u32; 16];
        let mut out = [0u32; 64];
        block_mix(&mut tmp, &inn[..32 * r], &mut out[..32 * r], r);
        let expect = ref_block_mix(&inn, r);
        let i: usize = kani::any();
        kani::assume(i < 32 * r);
        assert!(out[i] == expect[i], "block_mix differs from RFC 7914 scryptBlockMix");
    }

    /// RFC 7914 section 5 scryptROMix for r = 1 (32 words), with BlockMix = ref_block_mix
    fn ref_ro_mix_r1(b: &[u8; 128], n: usize) -> [u8; 128] {
        let mut x = [0u32; 64];
        let mut k = 0;
        while k < 32 { x[k] = u32::from_le_bytes([b[4 * k], b[4 * k + 1], b[4 * k + 2], b[4 * k + 3]]); k += 1; }
        let mut v = [[0u32; 32]; 4];
        let mut i = 0;
        while i < n {
            k = 0; while k < 32 { v[i][k] = x[k]; k += 1; }         // V[i] = X
            x = ref_block_mix(&x, 1);                                 // X = BlockMix(X)
            i += 1;
        }
        i = 0;
        while i < n {
            let j = ((x[16] as u64 | (x[17] as u64) << 32) % (n as u64)) as usize;   // Integerify(X) mod N
            k = 0; while k < 32 { x[k] ^= v[j][k]; k += 1; }        // T = X xor V[j]
            x = ref_block_mix(&x, 1);                                 // X = BlockMix(T)
            i += 1;
        }
        let mut out = [0u8; 128];
        k = 0;
        while k < 32 { let w = x[k].to_le_bytes(); out[4 * k] = w[0]; out[4 * k + 1] = w[1]; out[4 * k + 2] = w[2]; out[4 * k + 3] = w[3]; k += 1; }
        out
    }

    #[kani::proof]
    #[kani::unwind(34)]
    #[kani::stub(salsa_xor, stub_salsa_xor)]
    fn smix_is_rfc7914_romix() {
        let n: usize = if kani::any() { 2 } else { 4 };
        let b0: [u8; 128] = kani::any();
        let mut b = b0;
        let mut v = [0u32; 128];
        let mut x = [0u32; 32];
        let mut y = [0u32; 32];
        smix(&mut b, 1, n, &mut v, &mut x, &mut y);
        let expect = ref_ro_mix_r1(&b0, n);
        let i: usize = kani::any();
        kani::assume(i < 128);
        assert!(b[i] == expect[i], "smix differs from RFC 7914 scryptROMix");
    }
}

//@ harness pow2_mask_is_mod complete "all 64-bit x and all N > 1 with N & (N-1) == 0: x & (N-1) == x % N (the Integerify-mod-N step)" unwind=2
#[cfg(kani)]
mod verif_h_pow2 {
    #[kani::proof]
    fn pow2_mask_is_mod() {
        let x: u64 = kani::any();
        let n: u64 = kani::any();
        kani::assume(n > 1 && n & (n - 1) == 0);
        assert!(x & (n - 1) == x % n, "mask differs from remainder for a power of two");
    }
}
