//@ append src/crypto/src/lib.rs
//@ native verif_oracle_random_fresh "bounded stand-in / witness finder (C07): in one process, on two threads, 96 secure_random(32) + 96 secure_random(16) draws, 48 PrivateKey::generate() and 24 key_encrypt calls with identical arguments and library-chosen randomness are pairwise distinct (ephemeral key field, whole file)"
//@ native verif_oracle_hmac_hkdf "bounded stand-in / witness finder (C19): hmac_sha256 against RFC 2104 built over the crate's sha256 for every key length 0..=140 x 10 data lengths; hkdf_sha256 against RFC 5869 built over that reference for 6 salt x 3 info lengths x 8 output lengths incl. 8160; the Noise nonce layout for 10 counters; X25519 symmetry for 8 key pairs, base-point derivation, all-zero refusal"
//@ native verif_oracle_key_wipe_sequences "bounded stand-in / witness finder (C20): every sequence of <= 4 operations from {zeroize, clone_from, assign a clone, clone and drop the clone} on a PayloadKey (inline storage inspected after drop_in_place) and on a PrivateKey (heap storage inspected by a counting global allocator at deallocation time), for the constructors new / try_from / clone; and both containers (boxed PayloadKey, PrivateKey) with a clone dropped by a panic unwinding"
//@ native verif_oracle_file_level "bounded stand-in / witness finder (C01, C02, C03, C05, C06, C10, C13): key_encrypt (fixed ephemeral and payload key) and pass_encrypt against the documented file composed from the crate's own noise_encrypt / hkdf_sha256 / scrypt / AEAD: plaintexts of 0, 1, 5 bytes, reads of 1, 2 or all bytes, whole or 3-byte writes, every single read / write / flush fault position in key mode (a sample in password mode: each run is a real scrypt): result, fault side, prefix, no use of a failed sink, no panic; key_encrypt to each of the 7 small-order recipient keys and their bit-255 variants is refused with no call on the sink; key_decrypt / pass_decrypt of the documented files: plaintext and sender, wrong or mismatched recipient keys, every truncation and every single-bit flip of the 132-byte key-file header, 5 header bit flips of a password file: rejected with nothing written"
//@ native verif_oracle_stream_memory "bounded stand-in / witness finder (C11): peak heap growth of the calling thread (counting global allocator) during key_encrypt and pass_encrypt of a 1 MiB and a 6 MiB stream delivered in reads of 65536, 8192, 5000, 100-then-8192, 70000 and 65535 bytes, and during key_decrypt of 256 KiB and 2 MiB files made of full and of 1000-byte chunks: the larger input may not need more than 256 KiB more than the smaller one; a valid file followed by 64 MiB of foreign bytes is rejected after consuming at most 128 KiB of them with less than 1 MiB of heap"
//@ native verif_oracle_scrypt_kat "bounded stand-in / witness finder (C18): kestrel_crypto::scrypt against OpenSSL's scrypt (python hashlib, computed at check time) on a parameter sweep N in {2,4,16,64} x r in {1,2,3,8} x p in 1..8 x dkLen in {1,31,32,33,64,65,200} with password / salt lengths in {0,1,7,64,65}"
// Native oracles on the REAL code.  Never counted as proved; a disagreement is a concrete failing input.
#[cfg(test)]
mod verif_o_lib {
    use super::*;
    use std::alloc::{GlobalAlloc, Layout, System};
    use std::sync::atomic::{AtomicUsize, Ordering};

    // ---------------------------------------------------------------- C20: a global allocator that looks at blocks when they are freed
    const MARK_A: [u8; 16] = *b"VERIF-SECRET-KEY";
    const MARK_B: [u8; 16] = *b"verif_other_key!";
    static ARMED: AtomicUsize = AtomicUsize::new(0);
    static DIRTY_FREES: AtomicUsize = AtomicUsize::new(0);
    struct Watch;
    fn has_mark(p: *const u8, n: usize) -> bool {
        if n < 16 { return false; }
        let s = unsafe { std::slice::from_raw_parts(p, n) };
        let mut i = 0;
        while i + 16 <= n {
            if s[i..i + 16] == MARK_A || s[i..i + 16] == MARK_B { return true; }
            i += 1;
        }
        false
    }
    // per-thread heap accounting for the streaming oracle (C11): const-initialised thread locals, no allocation inside
    thread_local! {
        static MEASURE: std::cell::Cell<bool> = const { std::cell::Cell::new(false) };
        static CUR: std::cell::Cell<isize> = const { std::cell::Cell::new(0) };
        static PEAK: std::cell::Cell<isize> = const { std::cell::Cell::new(0) };
    }
    fn account(delta: isize) {
        let _ = MEASURE.try_with(|m| if m.get() {
            let _ = CUR.try_with(|c| { let v = c.get() + delta; c.set(v); let _ = PEAK.try_with(|p| if v > p.get() { p.set(v) }); });
        });
    }
    unsafe impl GlobalAlloc for Watch {
        unsafe fn alloc(&self, l: Layout) -> *mut u8 { account(l.size() as isize); System.alloc(l) }
        unsafe fn dealloc(&self, p: *mut u8, l: Layout) {
            if ARMED.load(Ordering::SeqCst) == 1 && has_mark(p, l.size()) { DIRTY_FREES.fetch_add(1, Ordering::SeqCst); }
            account(-(l.size() as isize));
            System.dealloc(p, l)
        }
        unsafe fn realloc(&self, p: *mut u8, l: Layout, n: usize) -> *mut u8 {
            if ARMED.load(Ordering::SeqCst) == 1 && has_mark(p, l.size()) { DIRTY_FREES.fetch_add(1, Ordering::SeqCst); }
            account(n as isize - l.size() as isize);
            System.realloc(p, l, n)
        }
    }
    /// peak heap growth (bytes, this thread) while `f` runs
    fn peak_of<F: FnOnce()>(f: F) -> isize {
        CUR.with(|c| c.set(0)); PEAK.with(|p| p.set(0)); MEASURE.with(|m| m.set(true));
        f();
        MEASURE.with(|m| m.set(false));
        PEAK.with(|p| p.get())
    }
    #[global_allocator]
    static GLOBAL: Watch = Watch;

    fn secret_a() -> [u8; 32] { let mut k = [0u8; 32]; k[..16].copy_from_slice(&MARK_A); k[16..].copy_from_slice(&MARK_A); k }
    fn secret_b() -> [u8; 32] { let mut k = [0u8; 32]; k[..16].copy_from_slice(&MARK_B); k[16..].copy_from_slice(&MARK_B); k }

    fn seqs(max: usize) -> Vec<Vec<u8>> {
        let mut all: Vec<Vec<u8>> = vec![vec![]];
        let mut cur: Vec<Vec<u8>> = vec![vec![]];
        for _ in 0..max {
            let mut nx = Vec::new();
            for s in cur.iter() { for op in 0u8..4 { let mut t = s.clone(); t.push(op); nx.push(t); } }
            all.extend(nx.iter().cloned());
            cur = nx;
        }
        all
    }

    #[test]
    fn verif_oracle_key_wipe_sequences() {
        use std::mem::MaybeUninit;
        let mut n = 0u32; let mut bad = 0u32; let mut first: Option<String> = None;
        let all = seqs(4);
        // PayloadKey: inline storage, looked at after drop_in_place
        for ctor in 0..2 {
            for s in all.iter() {
                n += 1;
                let other = PayloadKey::new(&secret_b());
                let first_key = PayloadKey::new(&secret_a());
                let mut slot = MaybeUninit::<PayloadKey>::new(if ctor == 0 { PayloadKey::new(&secret_a()) } else { first_key.clone() });
                let mut clone_dirty = false;
                unsafe {
                    let p = slot.as_mut_ptr();
                    for op in s.iter() {
                        match *op {
                            0 => (*p).zeroize(),
                            1 => (*p).clone_from(&other),
                            2 => { *p = other.clone(); }
                            _ => {
                                let mut c = MaybeUninit::<PayloadKey>::new((*p).clone());
                                std::ptr::drop_in_place(c.as_mut_ptr());
                                if has_mark(c.as_ptr() as *const u8, std::mem::size_of::<PayloadKey>()) { clone_dirty = true; }
                            }
                        }
                    }
                    std::ptr::drop_in_place(p);
                    let dirty = has_mark(slot.as_ptr() as *const u8, std::mem::size_of::<PayloadKey>());
                    if dirty || clone_dirty {
                        bad += 1;
                        if first.is_none() { first = Some(format!("PayloadKey ctor={} ops={:?} (0 zeroize, 1 clone_from, 2 assign clone, 3 clone+drop): secret bytes still in the {} storage after drop", if ctor == 0 { "new" } else { "clone" }, s, if dirty { "value's" } else { "clone's" })); }
                    }
                }
            }
        }
        // PrivateKey: heap storage, looked at by the allocator when the block is released
        for ctor in 0..2 {
            for s in all.iter() {
                n += 1;
                let other = PrivateKey::try_from(&secret_b()[..]).unwrap();
                let src = PrivateKey::try_from(&secret_a()[..]).unwrap();
                let before = DIRTY_FREES.load(Ordering::SeqCst);
                ARMED.store(1, Ordering::SeqCst);
                {
                    let mut k = if ctor == 0 { PrivateKey::try_from(&secret_a()[..]).unwrap() } else { src.clone() };
                    for op in s.iter() {
                        match *op {
                            0 => k.zeroize(),
                            1 => k.clone_from(&other),
                            2 => { k = other.clone(); }
                            _ => { let c = k.clone(); drop(c); }
                        }
                    }
                    drop(k);
                }
                ARMED.store(0, Ordering::SeqCst);
                let d = DIRTY_FREES.load(Ordering::SeqCst) - before;
                if d > 0 {
                    bad += 1;
                    if first.is_none() { first = Some(format!("PrivateKey ctor={} ops={:?} (0 zeroize, 1 clone_from, 2 assign clone, 3 clone+drop): {} heap block(s) released while still holding secret bytes", if ctor == 0 { "try_from" } else { "clone" }, s, d)); }
                }
                drop(other); drop(src);
            }
        }
        // keys owned by a scope that unwinds (a panic caught further up): their storage is wiped all the same
        for which in 0..2 {
            n += 1;
            let before = DIRTY_FREES.load(Ordering::SeqCst);
            let hook = std::panic::take_hook(); std::panic::set_hook(Box::new(|_| {}));
            ARMED.store(1, Ordering::SeqCst);
            let _ = std::panic::catch_unwind(|| {
                if which == 0 { let _k = Box::new(PayloadKey::new(&secret_a())); let _c = Box::new((*_k).clone()); panic!("unwind"); }
                else { let _k = PrivateKey::try_from(&secret_a()[..]).unwrap(); let _c = _k.clone(); panic!("unwind"); }
            });
            ARMED.store(0, Ordering::SeqCst);
            std::panic::set_hook(hook);
            let d = DIRTY_FREES.load(Ordering::SeqCst) - before;
            if d > 0 { bad += 1; if first.is_none() { first = Some(format!("{} and its clone dropped while a panic unwinds: {} heap block(s) released still holding the secret", if which == 0 { "a boxed PayloadKey" } else { "a PrivateKey" }, d)); } }
        }
        println!("VERIF_ORACLE verif_oracle_key_wipe_sequences cases={} disagreements={} first={:?}", n, bad, first);
        assert!(bad == 0, "key containers released with secret bytes intact in {} of {} cases; first: {:?}", bad, n, first);
    }

    // ---------------------------------------------------------------- C11: peak heap does not grow with the input
    struct PatReader { left: usize, sizes: Vec<usize>, i: usize, x: u8 }
    impl std::io::Read for PatReader {
        fn read(&mut self, buf: &mut [u8]) -> std::io::Result<usize> {
            let want = self.sizes[self.i.min(self.sizes.len() - 1)]; self.i += 1;
            let n = want.min(buf.len()).min(self.left);
            for b in buf[..n].iter_mut() { self.x = self.x.wrapping_mul(13).wrapping_add(7); *b = self.x; }
            self.left -= n;
            Ok(n)
        }
    }
    struct CountSink { n: usize, keep: Option<Vec<u8>> }
    impl std::io::Write for CountSink {
        fn write(&mut self, buf: &[u8]) -> std::io::Result<usize> { self.n += buf.len(); if let Some(k) = self.keep.as_mut() { k.extend_from_slice(buf); } Ok(buf.len()) }
        fn flush(&mut self) -> std::io::Result<()> { Ok(()) }
    }
    #[test]
    fn verif_oracle_stream_memory() {
        let mut n = 0u32; let mut bad = 0u32; let mut first: Option<String> = None;
        let s = PrivateKey::try_from(&[0x11u8; 32][..]).unwrap(); let sp = s.to_public().unwrap();
        let r = PrivateKey::try_from(&[0x22u8; 32][..]).unwrap(); let rp = r.to_public().unwrap();
        let (small, large) = (1usize << 20, 6usize << 20);
        let pats: Vec<(&str, Vec<usize>)> = vec![("65536", vec![65536]), ("8192", vec![8192]), ("5000", vec![5000]), ("100 then 8192", vec![100, 8192]), ("70000", vec![70000]), ("65535", vec![65535])];
        for (name, sizes) in pats.iter() {
            for mode in ["key", "pass"] {
                n += 1;
                let mut peaks = Vec::new();
                for len in [small, large] {
                    let mut src = PatReader { left: len, sizes: sizes.clone(), i: 0, x: 1 };
                    let mut sink = CountSink { n: 0, keep: None };
                    let pk = peak_of(|| {
                        if mode == "key" { crate::encrypt::key_encrypt(&mut src, &mut sink, &s, &sp, &rp, None, None, None, AsymFileFormat::V1).unwrap(); }
                        else { crate::encrypt::pass_encrypt(&mut src, &mut sink, b"pw", [3u8; 32], PassFileFormat::V1).unwrap(); }
                    });
                    peaks.push(pk);
                }
                // scrypt's own table (N = 32768, r = 8: 32 MiB) is a constant of password mode; what must not happen is growth
                if peaks[1] > peaks[0] + 262144 {
                    bad += 1; if first.is_none() { first = Some(format!("{} encryption, reads of {} bytes: peak heap {} bytes for a 1 MiB input but {} bytes for a 6 MiB input", mode, name, peaks[0], peaks[1])); }
                }
            }
        }
        // decryption of a stream made of short chunks and of full chunks
        for (name, sizes) in [("65536", vec![65536usize]), ("1000", vec![1000usize])] {
            n += 1;
            let mut peaks = Vec::new();
            for len in [small / 4, small * 2] {
                let mut src = PatReader { left: len, sizes: sizes.clone(), i: 0, x: 1 };
                let mut ct = CountSink { n: 0, keep: Some(Vec::new()) };
                crate::encrypt::key_encrypt(&mut src, &mut ct, &s, &sp, &rp, None, None, None, AsymFileFormat::V1).unwrap();
                let ctb = ct.keep.unwrap();
                let mut sink = CountSink { n: 0, keep: None };
                let mut rd = &ctb[..];
                let pk = peak_of(|| { crate::decrypt::key_decrypt(&mut rd, &mut sink, &r, &rp, AsymFileFormat::V1).unwrap(); });
                peaks.push(pk);
                if sink.n != len { bad += 1; if first.is_none() { first = Some(format!("decryption of a {}-byte stream released {} bytes", len, sink.n)); } }
            }
            if peaks[1] > peaks[0] + 262144 {
                bad += 1; if first.is_none() { first = Some(format!("key decryption, file encrypted from reads of {} bytes: peak heap {} bytes for 256 KiB of plaintext but {} bytes for 2 MiB", name, peaks[0], peaks[1])); }
            }
        }
        // a valid file followed by a long tail of foreign bytes: rejected after looking at O(1) of the tail
        {
            n += 1;
            struct Tail<'a> { head: &'a [u8], pos: usize, tail_left: usize, served: usize }
            impl<'a> std::io::Read for Tail<'a> {
                fn read(&mut self, buf: &mut [u8]) -> std::io::Result<usize> {
                    if self.pos < self.head.len() { let k = buf.len().min(self.head.len() - self.pos); buf[..k].copy_from_slice(&self.head[self.pos..self.pos + k]); self.pos += k; return Ok(k); }
                    let k = buf.len().min(self.tail_left).min(1 << 16); for b in buf[..k].iter_mut() { *b = 0; } self.tail_left -= k; self.served += k; Ok(k)
                }
            }
            let mut src = PatReader { left: 100000, sizes: vec![65536], i: 0, x: 1 };
            let mut ct = CountSink { n: 0, keep: Some(Vec::new()) };
            crate::encrypt::key_encrypt(&mut src, &mut ct, &s, &sp, &rp, None, None, None, AsymFileFormat::V1).unwrap();
            let ctb = ct.keep.unwrap();
            let mut rd = Tail { head: &ctb[..], pos: 0, tail_left: 64 << 20, served: 0 };
            let mut sink = CountSink { n: 0, keep: None };
            let mut rejected = false;
            let pk = peak_of(|| { rejected = crate::decrypt::key_decrypt(&mut rd, &mut sink, &r, &rp, AsymFileFormat::V1).is_err(); });
            if !rejected || rd.served > (1 << 17) || pk > (1 << 20) {
                bad += 1; if first.is_none() { first = Some(format!("a valid two-chunk file followed by 64 MiB of foreign bytes: rejected = {}, {} bytes of the tail consumed, peak heap {} bytes", rejected, rd.served, pk)); }
            }
        }
        println!("VERIF_ORACLE verif_oracle_stream_memory cases={} disagreements={} first={:?}", n, bad, first);
        assert!(bad == 0, "peak memory grows with the input in {} of {} cases; first: {:?}", bad, n, first);
    }

    // ---------------------------------------------------------------- file level: key_encrypt / pass_encrypt / key_decrypt / pass_decrypt
    struct FReader { data: Vec<u8>, pos: usize, step: usize, call: usize, fail_at: usize, failed: bool, hist: Vec<usize> }
    impl std::io::Read for FReader {
        fn read(&mut self, buf: &mut [u8]) -> std::io::Result<usize> {
            let c = self.call; self.call += 1;
            if c == self.fail_at { self.failed = true; return Err(std::io::Error::from(std::io::ErrorKind::Other)); }
            let n = self.step.min(buf.len()).min(self.data.len() - self.pos);
            buf[..n].copy_from_slice(&self.data[self.pos..self.pos + n]);
            self.pos += n;
            if n > 0 { self.hist.push(n); }
            Ok(n)
        }
    }
    struct FWriter { out: Vec<u8>, max: usize, call: usize, fail_at: usize, failed: bool, after_fail: usize }
    impl std::io::Write for FWriter {
        fn write(&mut self, buf: &[u8]) -> std::io::Result<usize> {
            let c = self.call; self.call += 1;
            if self.failed { self.after_fail += 1; }
            if c == self.fail_at { self.failed = true; return Err(std::io::Error::from(std::io::ErrorKind::Other)); }
            let n = buf.len().min(self.max);
            self.out.extend_from_slice(&buf[..n]);
            Ok(n)
        }
        fn flush(&mut self) -> std::io::Result<()> {
            let c = self.call; self.call += 1;
            if self.failed { self.after_fail += 1; }
            if c == self.fail_at { self.failed = true; return Err(std::io::Error::from(std::io::ErrorKind::Other)); }
            Ok(())
        }
    }
    /// the documented chunk stream for a read history (docs/file-format.txt) under `key` / `aad`
    fn ref_stream(key: &[u8], aad: &[u8], data: &[u8], hist: &[usize]) -> Vec<u8> {
        let mut out = Vec::new();
        let parts: Vec<usize> = if hist.is_empty() { vec![0] } else { hist.to_vec() };
        let mut pos = 0usize;
        for (i, len) in parts.iter().enumerate() {
            let last: u32 = if i + 1 == parts.len() { 1 } else { 0 };
            let mut ad = aad.to_vec(); ad.extend_from_slice(&last.to_be_bytes()); ad.extend_from_slice(&(*len as u32).to_be_bytes());
            let ct = chapoly_encrypt_noise(key, i as u64, &ad, &data[pos..pos + len]);
            out.extend_from_slice(&(i as u64).to_be_bytes()); out.extend_from_slice(&last.to_be_bytes()); out.extend_from_slice(&(*len as u32).to_be_bytes());
            out.extend_from_slice(&ct);
            pos += len;
        }
        out
    }
    #[test]
    fn verif_oracle_file_level() {
        let mut n = 0u32; let mut bad = 0u32; let mut first: Option<String> = None;
        let mut fail = |bad: &mut u32, first: &mut Option<String>, what: String| { *bad += 1; if first.is_none() { *first = Some(what); } };
        let s = PrivateKey::try_from(&[0x11u8; 32][..]).unwrap(); let sp = s.to_public().unwrap();
        let r = PrivateKey::try_from(&[0x22u8; 32][..]).unwrap(); let rp = r.to_public().unwrap();
        let e = PrivateKey::try_from(&[0x33u8; 32][..]).unwrap(); let ep = e.to_public().unwrap();
        let other = PrivateKey::try_from(&[0x44u8; 32][..]).unwrap(); let otherp = other.to_public().unwrap();
        let pk = PayloadKey::new(&[0x55u8; 32]);
        let magic_k = [0x65u8, 0x67, 0x6b, 0x10]; let magic_p = [0x65u8, 0x67, 0x6b, 0x20];
        let nm = noise_encrypt(&s, &sp, &rp, Some(&e), Some(&ep), &magic_k, &pk).unwrap();
        let fkey = hkdf_sha256(&[], pk.as_bytes(), &nm.handshake_hash, 32);
        let salt = [0x66u8; 32]; let pw = b"file level password";
        let pkey = scrypt(pw, &salt, 32768, 8, 1, 32);
        let data: Vec<u8> = vec![0x41, 0x42, 0x43, 0x44, 0x45];
        let expected = |mode: &str, d: &[u8], hist: &[usize]| -> Vec<u8> {
            let mut f = Vec::new();
            if mode == "key" { f.extend_from_slice(&magic_k); f.extend_from_slice(&nm.ciphertext); f.extend_from_slice(&ref_stream(&fkey, &[], d, hist)); }
            else { f.extend_from_slice(&magic_p); f.extend_from_slice(&salt); f.extend_from_slice(&ref_stream(&pkey, &magic_p, d, hist)); }
            f
        };
        // ---- encryption: every plaintext length 0..=5, read step 1 / 2 / whole, whole or 3-byte writes, every fault position
        for mode in ["key", "pass"] {
            for len in [0usize, 1, 5] { for step in [1usize, 2, 64] { for wmax in [usize::MAX, 3] {
                let base_calls_r = len / step + 3; let base_calls_w = if wmax == 3 { 120 } else { 12 + 3 * len };
                let mut faults: Vec<(usize, usize)> = vec![(usize::MAX, usize::MAX)];
                if mode == "key" {
                    for rf in 0..base_calls_r { faults.push((rf, usize::MAX)); }
                    for wf in 0..base_calls_w { faults.push((usize::MAX, wf)); }
                } else if len == 5 && step == 2 && wmax == usize::MAX {
                    for rf in [0usize, 2] { faults.push((rf, usize::MAX)); }
                    for wf in [0usize, 1, 2, 3, 6] { faults.push((usize::MAX, wf)); }
                } else if !(len == 5 && step == 2) { faults.clear(); if wmax == usize::MAX && step == 64 { faults.push((usize::MAX, usize::MAX)); } }
                for (rf, wf) in faults {
                    n += 1;
                    let mut rd = FReader { data: data[..len].to_vec(), pos: 0, step, call: 0, fail_at: rf, failed: false, hist: Vec::new() };
                    let mut wr = FWriter { out: Vec::new(), max: wmax, call: 0, fail_at: wf, failed: false, after_fail: 0 };
                    let res = std::panic::catch_unwind(std::panic::AssertUnwindSafe(|| {
                        if mode == "key" { crate::encrypt::key_encrypt(&mut rd, &mut wr, &s, &sp, &rp, Some(&e), Some(&ep), Some(&pk), AsymFileFormat::V1) }
                        else { crate::encrypt::pass_encrypt(&mut rd, &mut wr, pw, salt, PassFileFormat::V1) }
                    }));
                    let what = format!("{} encryption of {} bytes, reads of {} bytes, writes of at most {} bytes, read fault at call {}, write/flush fault at call {}", mode, len, step, wmax as isize, rf as isize, wf as isize);
                    let res = match res { Ok(x) => x, Err(_) => { fail(&mut bad, &mut first, format!("PANIC: {}", what)); continue; } };
                    let exp = expected(mode, &data[..len], &rd.hist);
                    if !rd.failed && !wr.failed {
                        if res.is_err() || wr.out != exp { fail(&mut bad, &mut first, format!("{}: result {}, {} bytes written, equal to the documented file ({} bytes): {}", what, if res.is_ok() { "Ok" } else { "Err" }, wr.out.len(), exp.len(), wr.out == exp)); }
                    } else {
                        let side_ok = match &res { Ok(()) => false, Err(crate::errors::EncryptError::IORead(_)) => rd.failed, Err(crate::errors::EncryptError::IOWrite(_)) => wr.failed, Err(_) => false };
                        if !side_ok { fail(&mut bad, &mut first, format!("{}: the fault is reported as {}", what, match &res { Ok(()) => "Ok".to_string(), Err(er) => format!("{}", er) })); }
                        else if wr.out.len() > exp.len() || wr.out[..] != exp[..wr.out.len()] { fail(&mut bad, &mut first, format!("{}: what was written is not a prefix of the fault-free file", what)); }
                        else if wr.after_fail > 0 { fail(&mut bad, &mut first, format!("{}: the sink was used again after it had failed", what)); }
                    }
                }
            } } }
        }
        // ---- C05 / C13: a recipient key that forces an all-zero shared secret is refused, and nothing at all reaches the sink
        {
            let hexes = ["0000000000000000000000000000000000000000000000000000000000000000",
                         "0100000000000000000000000000000000000000000000000000000000000000",
                         "e0eb7a7c3b41b8ae1656e3faf19fc46ada098deb9c32b1fd866205165f49b800",
                         "5f9c95bca3508c24b1d0b1559c83ef5b04445cc4581c8e86d8224eddd09f1157",
                         "ecffffffffffffffffffffffffffffffffffffffffffffffffffffffffffff7f",
                         "edffffffffffffffffffffffffffffffffffffffffffffffffffffffffffff7f",
                         "eeffffffffffffffffffffffffffffffffffffffffffffffffffffffffffff7f"];
            for h in hexes.iter() { for top in [0u8, 0x80] {
                n += 1;
                let mut b = unhex(h); b[31] |= top;
                let low = PublicKey::try_from(&b[..]).unwrap();
                let mut rd = FReader { data: data.clone(), pos: 0, step: 64, call: 0, fail_at: usize::MAX, failed: false, hist: Vec::new() };
                let mut wr = FWriter { out: Vec::new(), max: usize::MAX, call: 0, fail_at: usize::MAX, failed: false, after_fail: 0 };
                let res = std::panic::catch_unwind(std::panic::AssertUnwindSafe(|| crate::encrypt::key_encrypt(&mut rd, &mut wr, &s, &sp, &low, Some(&e), Some(&ep), Some(&pk), AsymFileFormat::V1).is_ok()));
                if !matches!(res, Ok(false)) || !wr.out.is_empty() || wr.call != 0 {
                    fail(&mut bad, &mut first, format!("key_encrypt to the small-order recipient key {}{}: {}, {} bytes written, {} calls on the sink", h, if top != 0 { " with bit 255 set" } else { "" }, match res { Ok(true) => "Ok", Ok(false) => "refused", Err(_) => "PANIC" }, wr.out.len(), wr.call));
                }
            } }
        }
        // ---- decryption of the documented files: round trip, sender, every header bit flip / truncation, wrong keys
        let file_k = expected("key", &data, &[2, 2, 1]);
        let file_p = expected("pass", &data, &[2, 2, 1]);
        {
            n += 1;
            let mut out = Vec::new();
            match crate::decrypt::key_decrypt(&mut &file_k[..], &mut out, &r, &rp, AsymFileFormat::V1) {
                Ok(sender) if sender.as_bytes() == sp.as_bytes() && out == data => {}
                other => fail(&mut bad, &mut first, format!("key_decrypt of the documented 3-chunk file: {} (plaintext equal: {})", match other { Ok(_) => "Ok with another sender key".to_string(), Err(er) => format!("Err {}", er) }, out == data)),
            }
            n += 1;
            let mut out = Vec::new();
            if crate::decrypt::pass_decrypt(&mut &file_p[..], &mut out, pw, PassFileFormat::V1).is_err() || out != data { fail(&mut bad, &mut first, "pass_decrypt of the documented 3-chunk file fails or returns other bytes".to_string()); }
            n += 1;
            let mut out = Vec::new();
            if crate::decrypt::key_decrypt(&mut &file_k[..], &mut out, &other, &otherp, AsymFileFormat::V1).is_ok() || !out.is_empty() { fail(&mut bad, &mut first, "key_decrypt under a key the file was not addressed to succeeds or writes".to_string()); }
            n += 1;
            let mut out = Vec::new();
            if crate::decrypt::key_decrypt(&mut &file_k[..], &mut out, &r, &otherp, AsymFileFormat::V1).is_ok() || !out.is_empty() { fail(&mut bad, &mut first, "key_decrypt with a recipient public key that does not match the private key succeeds or writes".to_string()); }
        }
        for cut in 0..132usize {
            n += 1;
            let mut out = Vec::new();
            let rr = std::panic::catch_unwind(std::panic::AssertUnwindSafe(|| crate::decrypt::key_decrypt(&mut &file_k[..cut], &mut out, &r, &rp, AsymFileFormat::V1).is_ok()));
            if !matches!(rr, Ok(false)) || !out.is_empty() { fail(&mut bad, &mut first, format!("key file truncated to {} bytes: {}", cut, if rr.is_err() { "PANIC" } else { "accepted or output written" })); }
        }
        for byte in 0..132usize { for bit in 0..8u8 {
            n += 1;
            let mut m = file_k.clone(); m[byte] ^= 1 << bit;
            let mut out = Vec::new();
            let rr = std::panic::catch_unwind(std::panic::AssertUnwindSafe(|| crate::decrypt::key_decrypt(&mut &m[..], &mut out, &r, &rp, AsymFileFormat::V1).is_ok()));
            if !matches!(rr, Ok(false)) || !out.is_empty() { fail(&mut bad, &mut first, format!("key file with bit {} of header byte {} flipped: {}", bit, byte, if rr.is_err() { "PANIC" } else { "ACCEPTED" })); }
        } }
        for byte in [0usize, 3, 4, 20, 35] {     // password files: each header flip costs a real scrypt
            n += 1;
            let mut m = file_p.clone(); m[byte] ^= 0x80;
            let mut out = Vec::new();
            let rr = std::panic::catch_unwind(std::panic::AssertUnwindSafe(|| crate::decrypt::pass_decrypt(&mut &m[..], &mut out, pw, PassFileFormat::V1).is_ok()));
            if !matches!(rr, Ok(false)) || !out.is_empty() { fail(&mut bad, &mut first, format!("password file with the top bit of header byte {} flipped: {}", byte, if rr.is_err() { "PANIC" } else { "ACCEPTED" })); }
        }
        println!("VERIF_ORACLE verif_oracle_file_level cases={} disagreements={} first={:?}", n, bad, first);
        assert!(bad == 0, "file-level functions disagree with the documented format in {} of {} cases; first: {:?}", bad, n, first);
    }

    // ---------------------------------------------------------------- C07
    #[test]
    fn verif_oracle_random_fresh() {
        fn batch() -> (Vec<Vec<u8>>, Vec<Vec<u8>>, Vec<Vec<u8>>, Vec<Vec<u8>>) {
            let mut r32 = Vec::new(); let mut r16 = Vec::new(); let mut gen = Vec::new(); let mut files = Vec::new();
            for i in 0..48 {
                r32.push(secure_random(32));
                r16.push(secure_random(16));
                if i % 2 == 0 { gen.push(PrivateKey::generate().as_bytes().to_vec()); }
                if i % 4 == 0 {
                    let s = PrivateKey::try_from(&[0x11u8; 32][..]).unwrap(); let sp = s.to_public().unwrap();
                    let r = PrivateKey::try_from(&[0x22u8; 32][..]).unwrap(); let rp = r.to_public().unwrap();
                    let mut ct = Vec::new();
                    crate::encrypt::key_encrypt(&mut &b"same plaintext"[..], &mut ct, &s, &sp, &rp, None, None, None, AsymFileFormat::V1).unwrap();
                    files.push(ct);
                }
            }
            (r32, r16, gen, files)
        }
        let h = std::thread::spawn(batch);
        let (mut r32, mut r16, mut gen, mut files) = batch();
        let (a, b, c, d) = h.join().unwrap();
        r32.extend(a); r16.extend(b); gen.extend(c); files.extend(d);
        let mut n = 0u32; let mut bad = 0u32; let mut first: Option<String> = None;
        let mut cmp = |what: &str, v: &Vec<Vec<u8>>, lo: usize, hi: usize| {
            for i in 0..v.len() { for j in 0..i {
                n += 1;
                let (x, y) = (&v[i], &v[j]);
                let hi2 = if hi == 0 { x.len().min(y.len()) } else { hi };
                if x[lo..hi2] == y[lo..hi2] {
                    bad += 1;
                    if first.is_none() { first = Some(format!("{}: draw #{} equals draw #{} (process-wide order: own thread first, then second thread)", what, i, j)); }
                }
            } }
        };
        cmp("secure_random(32)", &r32, 0, 0);
        cmp("secure_random(16)", &r16, 0, 0);
        cmp("PrivateKey::generate()", &gen, 0, 0);
        cmp("key_encrypt ephemeral public key (file bytes 4..36)", &files, 4, 36);
        cmp("key_encrypt encrypted payload key (file bytes 84..132)", &files, 84, 132);
        // the keys drawn are not a replay of earlier raw draws either (a pool handing the same bytes out twice)
        let mut allv: Vec<Vec<u8>> = Vec::new(); allv.extend(r32.iter().cloned()); allv.extend(gen.iter().cloned());
        cmp("secure_random(32) / generated private keys", &allv, 0, 0);
        println!("VERIF_ORACLE verif_oracle_random_fresh cases={} disagreements={} first={:?}", n, bad, first);
        assert!(bad == 0, "randomness was reused in {} of {} comparisons; first: {:?}", bad, n, first);
    }

    // ---------------------------------------------------------------- C19
    fn ref_hmac(key: &[u8], data: &[u8]) -> Vec<u8> {
        // RFC 2104 with B = 64, L = 32, H = the crate's sha256 (the primitive is trusted, the construction is what is compared)
        let mut k = [0u8; 64];
        if key.len() > 64 { k[..32].copy_from_slice(&sha256(key)); } else { k[..key.len()].copy_from_slice(key); }
        let mut inner = Vec::new(); for b in k.iter() { inner.push(b ^ 0x36); } inner.extend_from_slice(data);
        let ih = sha256(&inner);
        let mut outer = Vec::new(); for b in k.iter() { outer.push(b ^ 0x5c); } outer.extend_from_slice(&ih);
        sha256(&outer)
    }
    fn ref_hkdf(salt: &[u8], ikm: &[u8], info: &[u8], len: usize) -> Vec<u8> {
        // RFC 5869
        let prk = ref_hmac(salt, ikm);
        let mut okm = Vec::new(); let mut t: Vec<u8> = Vec::new(); let mut i = 1u8;
        while okm.len() < len {
            let mut m = t.clone(); m.extend_from_slice(info); m.push(i);
            t = ref_hmac(&prk, &m);
            okm.extend_from_slice(&t);
            i = i.wrapping_add(1);
        }
        okm.truncate(len); okm
    }
    #[test]
    fn verif_oracle_hmac_hkdf() {
        let mut n = 0u32; let mut bad = 0u32; let mut first: Option<String> = None;
        let buf: Vec<u8> = (0..400u32).map(|i| (i * 7 + 3) as u8).collect();
        for kl in 0..=140usize { for dl in [0usize, 1, 31, 32, 55, 56, 63, 64, 65, 200] {
            n += 1;
            if hmac_sha256(&buf[..kl], &buf[100..100 + dl]) != ref_hmac(&buf[..kl], &buf[100..100 + dl]) {
                bad += 1; if first.is_none() { first = Some(format!("hmac_sha256 differs from RFC 2104 for key length {} data length {} (key = bytes (7i+3) mod 256, i<{})", kl, dl, kl)); }
            }
        } }
        for sl in [0usize, 1, 32, 64, 65, 100] { for il in [0usize, 1, 50] { for ol in [1usize, 31, 32, 33, 64, 100, 255 * 32 - 1, 255 * 32] {
            n += 1;
            if hkdf_sha256(&buf[..sl], &buf[120..152], &buf[200..200 + il], ol) != ref_hkdf(&buf[..sl], &buf[120..152], &buf[200..200 + il], ol) {
                bad += 1; if first.is_none() { first = Some(format!("hkdf_sha256 differs from RFC 5869 for salt length {} info length {} output length {}", sl, il, ol)); }
            }
        } } }
        let key = [0x42u8; 32];
        for c in [0u64, 1, 255, 256, 65535, 0xffff_ffff, 0x1_0000_0000, 0x0123_4567_89ab_cdef, 1 << 63, u64::MAX - 1] {
            n += 1;
            let mut nonce = [0u8; 12]; nonce[4..].copy_from_slice(&c.to_le_bytes());
            let a = chapoly_encrypt_noise(&key, c, b"ad", b"plaintext");
            let b = chapoly_encrypt_ietf(&key, &nonce, b"plaintext", b"ad");
            let back = chapoly_decrypt_noise(&key, c, b"ad", &b);
            if a != b || back.is_err() {
                bad += 1; if first.is_none() { first = Some(format!("Noise nonce for counter {} is not 4 zero bytes || LE64(counter)", c)); }
            }
        }
        for i in 0..8u8 {
            n += 1;
            let a: Vec<u8> = (0..32u8).map(|j| j.wrapping_mul(i + 3).wrapping_add(i)).collect();
            let b: Vec<u8> = (0..32u8).map(|j| j.wrapping_mul(i + 11).wrapping_add(0x80 | i)).collect();
            let mut base = [0u8; 32]; base[0] = 9;
            let pa = x25519_derive_public(&a).unwrap(); let pb = x25519_derive_public(&b).unwrap();
            let ok = x25519(&a, &pb).unwrap() == x25519(&b, &pa).unwrap() && x25519(&a, &base).unwrap() == pa
                && x25519(&a, &[0u8; 32]).is_err() && { let mut one = [0u8; 32]; one[0] = 1; x25519(&a, &one).is_err() };
            if !ok { bad += 1; if first.is_none() { first = Some(format!("X25519 symmetry / base point / all-zero refusal fails for test scalar #{}", i)); } }
        }
        println!("VERIF_ORACLE verif_oracle_hmac_hkdf cases={} disagreements={} first={:?}", n, bad, first);
        assert!(bad == 0, "exported primitives differ from their RFC constructions in {} of {} cases; first: {:?}", bad, n, first);
    }

    // ---------------------------------------------------------------- C18
    fn unhex(s: &str) -> Vec<u8> {
        if s == "-" { return Vec::new(); }
        (0..s.len() / 2).map(|i| u8::from_str_radix(&s[2 * i..2 * i + 2], 16).unwrap()).collect()
    }
    #[test]
    fn verif_oracle_scrypt_kat() {
        let mut n = 0u32; let mut bad = 0u32; let mut first: Option<String> = None;
        let path = std::env::var("VERIF_SCRYPT_KAT").unwrap_or_default();
        if !path.is_empty() {
            let txt = std::fs::read_to_string(&path).unwrap();
            for ln in txt.lines() {
                let f: Vec<&str> = ln.split_whitespace().collect();
                if f.len() != 7 { continue; }
                let (pw, salt) = (unhex(f[0]), unhex(f[1]));
                let (nn, r, p, dk): (u32, u32, u32, usize) = (f[2].parse().unwrap(), f[3].parse().unwrap(), f[4].parse().unwrap(), f[5].parse().unwrap());
                n += 1;
                let got = scrypt(&pw, &salt, nn, r, p, dk);
                if got != unhex(f[6]) {
                    bad += 1;
                    if first.is_none() { first = Some(format!("scrypt(password={}, salt={}, N={}, r={}, p={}, dkLen={}) differs from OpenSSL", f[0], f[1], nn, r, p, dk)); }
                }
            }
        }
        println!("VERIF_ORACLE verif_oracle_scrypt_kat cases={} disagreements={} first={:?}", n, bad, first);
        assert!(bad == 0, "scrypt differs from OpenSSL's scrypt in {} of {} cases; first: {:?}", bad, n, first);
    }
}
