//@ append src/crypto/src/lib.rs
//@ harness payload_key_drop_zeroizes complete "all 32-byte keys, the key and its clone dropped in either order" unwind=34
//@ harness private_key_zeroize_zeroes_buffer complete "all 32-byte keys, constructed by try_from and by clone" unwind=34
//@ harness noise_nonce_layout_enc complete "all 2^64 counters (inner AEAD call replaced by a recorder)" unwind=14 stubs=1
//@ harness noise_nonce_layout_dec complete "all 2^64 counters (inner AEAD call replaced by a recorder)" unwind=14 stubs=1
//@ xharness-not-registered chapoly_decrypt_short_input bounded "all ciphertexts of length 0..=17 with symbolic contents (real orion code)" unwind=34
#[cfg(kani)]
#[allow(dead_code, static_mut_refs)]
mod verif_h_lib {
    use super::*;
    use std::mem::ManuallyDrop;

    /// C20: dropping a PayloadKey (and every clone of it) leaves its 32 bytes zero.  ManuallyDrop keeps the
    /// storage alive so the bytes can be read back after Drop::drop ran.
    #[kani::proof]
    #[kani::unwind(34)]
    fn payload_key_drop_zeroizes() {
        let bytes: [u8; 32] = kani::any();
        let mut a = ManuallyDrop::new(PayloadKey::new(&bytes));
        let mut b = ManuallyDrop::new((*a).clone());
        let first: bool = kani::any();
        unsafe {
            if first { ManuallyDrop::drop(&mut a); ManuallyDrop::drop(&mut b); }
            else { ManuallyDrop::drop(&mut b); ManuallyDrop::drop(&mut a); }
        }
        let i: usize = kani::any();
        kani::assume(i < 32);
        assert!(a.key[i] == 0, "PayloadKey bytes not zero after drop");
        assert!(b.key[i] == 0, "cloned PayloadKey bytes not zero after drop");
    }

    /// C20: PrivateKey::zeroize (the body of its Drop) overwrites the vector's own buffer, at unchanged length,
    /// and does not touch a clone.
    #[kani::proof]
    #[kani::unwind(34)]
    fn private_key_zeroize_zeroes_buffer() {
        let bytes: [u8; 32] = kani::any();
        let mut k = PrivateKey::try_from(&bytes[..]).unwrap();
        let mut c = k.clone();
        let i: usize = kani::any();
        kani::assume(i < 32);
        k.zeroize();
        assert!(k.as_bytes().len() == 32);
        assert!(k.as_bytes()[i] == 0, "PrivateKey buffer not zero after zeroize");
        assert!(c.as_bytes()[i] == bytes[i]);
        c.zeroize();
        assert!(c.as_bytes()[i] == 0, "cloned PrivateKey buffer not zero after zeroize");
    }

    static mut REC_NONCE: [u8; 12] = [0xff; 12];
    static mut REC_NONCE_LEN: usize = 0;
    static mut REC_LENS: [usize; 3] = [0; 3];
    static mut REC_FIRST: [u8; 3] = [0; 3];
    fn rec(key: &[u8], nonce: &[u8], data: &[u8], aad: &[u8]) {
        unsafe {
            REC_NONCE_LEN = nonce.len();
            let mut i = 0;
            while i < 12 && i < nonce.len() { REC_NONCE[i] = nonce[i]; i += 1; }
            REC_LENS = [key.len(), data.len(), aad.len()];
            REC_FIRST = [if key.is_empty() { 0 } else { key[0] }, if data.is_empty() { 0 } else { data[0] }, if aad.is_empty() { 0 } else { aad[0] }];
        }
    }
    fn rec_enc(key: &[u8], nonce: &[u8], plaintext: &[u8], aad: &[u8]) -> Vec<u8> { rec(key, nonce, plaintext, aad); Vec::new() }
    fn rec_dec(key: &[u8], nonce: &[u8], ciphertext: &[u8], aad: &[u8]) -> Result<Vec<u8>, ChaPolyDecryptError> { rec(key, nonce, ciphertext, aad); Ok(Vec::new()) }
    fn check_layout(n: u64, key0: u8, data0: u8, ad0: u8) {
        unsafe {
            assert!(REC_NONCE_LEN == 12, "nonce is not 12 bytes");
            assert!(REC_NONCE[0] == 0 && REC_NONCE[1] == 0 && REC_NONCE[2] == 0 && REC_NONCE[3] == 0, "top 4 nonce bytes not zero");
            let i: usize = kani::any();
            kani::assume(i < 8);
            assert!(REC_NONCE[4 + i] == (n >> (8 * i as u32)) as u8, "nonce is not the little-endian counter");
            // arguments reach the inner call in their own roles
            assert!(REC_LENS[0] == 32 && REC_LENS[1] == 3 && REC_LENS[2] == 2, "key / data / aad swapped");
            assert!(REC_FIRST[0] == key0 && REC_FIRST[1] == data0 && REC_FIRST[2] == ad0, "key / data / aad swapped");
        }
    }
    /// C06 / C19: nonce = 0^4 ++ LE64(counter) for every counter, on the real chapoly_encrypt_noise
    #[kani::proof]
    #[kani::unwind(14)]
    #[kani::stub(chapoly_encrypt_ietf, rec_enc)]
    fn noise_nonce_layout_enc() {
        let n: u64 = kani::any();
        let key = [0x11u8; 32]; let ad = [0x22u8, 1]; let pt = [0x33u8, 2, 3];
        let _ = chapoly_encrypt_noise(&key, n, &ad, &pt);
        check_layout(n, 0x11, 0x33, 0x22);
    }
    #[kani::proof]
    #[kani::unwind(14)]
    #[kani::stub(chapoly_decrypt_ietf, rec_dec)]
    fn noise_nonce_layout_dec() {
        let n: u64 = kani::any();
        let key = [0x11u8; 32]; let ad = [0x22u8, 1]; let ct = [0x33u8, 2, 3];
        let _ = chapoly_decrypt_noise(&key, n, &ad, &ct);
        check_layout(n, 0x11, 0x33, 0x22);
    }

    /// C09 witness finder: the AEAD open wrapper must return (not panic) on ciphertexts shorter than a tag
    #[kani::proof]
    #[kani::unwind(34)]
    fn chapoly_decrypt_short_input() {
        let len: usize = kani::any();
        kani::assume(len < 16);
        let buf: [u8; 16] = kani::any();
        let key = [0u8; 32]; let nonce = [0u8; 12];
        let r = chapoly_decrypt_ietf(&key, &nonce, &buf[..len], &[]);
        assert!(r.is_err(), "a ciphertext shorter than the tag was accepted");
    }
}
