//@ append src/cli/src/keyring.rs
//@ native verif_finding_f_hmac_lock "C15 known finding F-HMAC: a password with the same HMAC key block unlocks the private key"
#[cfg(test)]
mod verif_findings {
    use super::Keyring;
    use kestrel_crypto::PrivateKey;
    #[test]
    fn verif_finding_f_hmac_lock() {
        let sk = PrivateKey::try_from(&[9u8; 32][..]).unwrap();
        let locked = Keyring::lock_private_key(&sk, b"abc", [5u8; 32]);
        let a = Keyring::unlock_private_key(&locked, b"abc\0").is_ok();
        let c = Keyring::unlock_private_key(&locked, b"abd").is_ok();
        let same = Keyring::unlock_private_key(&locked, b"abc").map(|k| k.as_bytes() == sk.as_bytes()).unwrap_or(false);
        println!("VERIF_FINDING F-HMAC zero_padded_unlocks={} unrelated_unlocks={} same_password_roundtrip={}", a, c, same);
        assert!(same, "the locking password no longer unlocks");
        assert!(!c, "an unrelated password unlocked the key");
        assert!(!a, "passwords with the same HMAC-SHA256 key block are interchangeable");
    }
}
