//@ append src/crypto/src/decrypt.rs
//@ native verif_oracle_sweep_dec "bounded stand-in / witness finder: real decrypt_chunks (real AEAD) against the executable transcription of dec_spec on every stream of 1..3 chunks of 0..2 bytes (chunk size 2; also every unmutated stream of 4..5 chunks), each mutated by every truncation, a one-byte extension, a bit flip in every byte, chunk swap / duplication / drop and flag changes, read 1 byte at a time or whole, written 1 byte at a time or whole, plus every single read / write / flush fault position on the authentic streams"
// Native oracle on the REAL code.  Never counted as proved; a disagreement is a concrete failing input.
#[cfg(test)]
mod verif_o_dec {
    use super::*;
    use std::cell::RefCell;
    use std::io::{Read, Write};
    use std::rc::Rc;

    #[derive(Clone, Copy, Debug, PartialEq)]
    enum Ev { R(usize), W(usize), F }
    type Log = Rc<RefCell<Vec<Ev>>>;

    struct SR<'a> { data: &'a [u8], pos: usize, one: bool, call: usize, fail_at: usize, failed: bool, log: Log }
    impl<'a> Read for SR<'a> {
        fn read(&mut self, buf: &mut [u8]) -> std::io::Result<usize> {
            let c = self.call; self.call += 1;
            if c == self.fail_at { self.failed = true; return Err(std::io::Error::from(std::io::ErrorKind::Other)); }
            let rem = self.data.len() - self.pos;
            let mut n = if rem < buf.len() { rem } else { buf.len() };
            if self.one && n > 1 { n = 1; }
            buf[..n].copy_from_slice(&self.data[self.pos..self.pos + n]);
            self.pos += n;
            self.log.borrow_mut().push(Ev::R(n));
            Ok(n)
        }
    }
    struct SW { out: Vec<u8>, one: bool, call: usize, fail_at: usize, failed: bool, after_fail: usize, log: Log }
    impl Write for SW {
        fn write(&mut self, buf: &[u8]) -> std::io::Result<usize> {
            let c = self.call; self.call += 1;
            if self.failed { self.after_fail += 1; }
            if c == self.fail_at { self.failed = true; return Err(std::io::Error::from(std::io::ErrorKind::Other)); }
            let n = if self.one && buf.len() > 1 { 1 } else { buf.len() };
            self.out.extend_from_slice(&buf[..n]);
            self.log.borrow_mut().push(Ev::W(n));
            Ok(n)
        }
        fn flush(&mut self) -> std::io::Result<()> {
            let c = self.call; self.call += 1;
            if self.failed { self.after_fail += 1; }
            if c == self.fail_at { self.failed = true; return Err(std::io::Error::from(std::io::ErrorKind::Other)); }
            self.log.borrow_mut().push(Ev::F);
            Ok(())
        }
    }

    #[derive(Clone, Copy, Debug, PartialEq)]
    enum Res { Ok, ChunkLen, ChaPoly, Unexpected, IORead, IOWrite, Other }
    fn kind(r: &Result<(), DecryptError>) -> Res {
        match r {
            Ok(()) => Res::Ok,
            Err(DecryptError::ChunkLen) => Res::ChunkLen,
            Err(DecryptError::ChaPolyDecrypt) => Res::ChaPoly,
            Err(DecryptError::UnexpectedData) => Res::Unexpected,
            Err(DecryptError::IORead(_)) => Res::IORead,
            Err(DecryptError::IOWrite(_)) => Res::IOWrite,
            Err(_) => Res::Other,
        }
    }

    const CS: usize = 2;
    /// the documented record of one chunk (docs/file-format.txt): counter(8, BE) flag(4, BE) len(4, BE) ciphertext+tag
    fn record(key: &[u8], aad: &[u8], idx: u64, last: bool, pt: &[u8]) -> Vec<u8> {
        let flag: u32 = if last { 1 } else { 0 };
        let mut ad = aad.to_vec();
        ad.extend_from_slice(&flag.to_be_bytes());
        ad.extend_from_slice(&(pt.len() as u32).to_be_bytes());
        let ct = crate::chapoly_encrypt_noise(key, idx, &ad, pt);
        let mut r = Vec::new();
        r.extend_from_slice(&idx.to_be_bytes());
        r.extend_from_slice(&flag.to_be_bytes());
        r.extend_from_slice(&(pt.len() as u32).to_be_bytes());
        r.extend_from_slice(&ct);
        r
    }
    /// executable transcription of dec_spec (spec/chunks.rs): (bytes released, verdict, per released chunk: (end offset of
    /// its record in the stream, plaintext length))
    fn model(s: &[u8], key: &[u8], aad: &[u8]) -> (Vec<u8>, Res, Vec<(usize, usize)>) {
        let mut out = Vec::new();
        let mut marks = Vec::new();
        let mut off = 0usize;
        let mut i: u64 = 0;
        loop {
            if s.len() - off < 16 { return (out, Res::IORead, marks); }
            let flag = u32::from_be_bytes([s[off + 8], s[off + 9], s[off + 10], s[off + 11]]);
            let len = u32::from_be_bytes([s[off + 12], s[off + 13], s[off + 14], s[off + 15]]) as usize;
            if len > CS { return (out, Res::ChunkLen, marks); }
            if s.len() - off - 16 < len + 16 { return (out, Res::IORead, marks); }
            let mut ad = aad.to_vec();
            ad.extend_from_slice(&s[off + 8..off + 16]);
            let pt = match crate::chapoly_decrypt_noise(key, i, &ad, &s[off + 16..off + 16 + len + 16]) {
                Ok(p) => p,
                Err(_) => return (out, Res::ChaPoly, marks),
            };
            off += 16 + len + 16;
            if flag == 1 && off != s.len() { return (out, Res::Unexpected, marks); }
            out.extend_from_slice(&pt);
            marks.push((off, pt.len()));
            if flag == 1 { return (out, Res::Ok, marks); }
            i += 1;
        }
    }

    struct Stats { n: u32, bad: u32, first: Option<String> }
    impl Stats {
        fn fail(&mut self, what: &str, s: &[u8], one_r: bool, one_w: bool, rf: usize, wf: usize) {
            self.bad += 1;
            if self.first.is_none() {
                let hex: String = s.iter().map(|b| format!("{:02x}", b)).collect();
                self.first = Some(format!("{} stream={} read1={} write1={} read_fault_at={} write_fault_at={}", what, hex, one_r, one_w, rf as isize, wf as isize));
            }
        }
    }

    fn run(st: &mut Stats, s: &[u8], key: &[u8], aad: &[u8], one_r: bool, one_w: bool, rf: usize, wf: usize) {
        st.n += 1;
        let log: Log = Rc::new(RefCell::new(Vec::new()));
        let mut r = SR { data: s, pos: 0, one: one_r, call: 0, fail_at: rf, failed: false, log: log.clone() };
        let mut w = SW { out: Vec::new(), one: one_w, call: 0, fail_at: wf, failed: false, after_fail: 0, log: log.clone() };
        let res = match std::panic::catch_unwind(std::panic::AssertUnwindSafe(|| decrypt_chunks(&mut r, &mut w, key, aad, CS as u32))) {
            Ok(x) => x,
            Err(_) => { st.fail("PANIC instead of a result (C09)", s, one_r, one_w, rf, wf); return; }
        };
        let k = kind(&res);
        let (exp_out, exp_res, marks) = model(s, key, aad);
        if !r.failed && !w.failed {
            // C03 / C04 / C09: accepted exactly when the format says so, and then with exactly the authentic plaintext;
            // on rejection only whole, already verified chunks may have been released (which error value is reported is
            // not part of the properties, so it is not compared)
            if (k == Res::Ok) != (exp_res == Res::Ok) { st.fail(&format!("verdict {:?} where the format prescribes {:?}", k, exp_res), s, one_r, one_w, rf, wf); return; }
            if k == Res::Ok && w.out != exp_out { st.fail(&format!("accepted with output {:?} where the authentic plaintext is {:?}", w.out, exp_out), s, one_r, one_w, rf, wf); return; }
            if k != Res::Ok {
                let mut ok = w.out.is_empty(); let mut acc = 0usize;
                for (_, l) in marks.iter() { acc += *l; if w.out.len() == acc { ok = true; } }
                if !ok || w.out.len() > exp_out.len() || w.out[..] != exp_out[..w.out.len()] {
                    st.fail(&format!("rejected, but released {:?}, which is not a whole-chunk prefix of the verified plaintext {:?}", w.out, exp_out), s, one_r, one_w, rf, wf); return;
                }
            }
        } else {
            // C10: a fault surfaces as the error of the failing side, never as success; what was written is a prefix
            if k == Res::Ok { st.fail("Ok although an I/O call failed", s, one_r, one_w, rf, wf); return; }
            if w.failed && k != Res::IOWrite { st.fail(&format!("write/flush fault reported as {:?}", k), s, one_r, one_w, rf, wf); return; }
            if r.failed && !w.failed && k != Res::IORead { st.fail(&format!("read fault reported as {:?}", k), s, one_r, one_w, rf, wf); return; }
            if w.out.len() > exp_out.len() || w.out[..] != exp_out[..w.out.len()] { st.fail("output is not a prefix of the fault-free output", s, one_r, one_w, rf, wf); return; }
            if w.after_fail > 0 { st.fail("the sink was used again after it had reported an error", s, one_r, one_w, rf, wf); return; }
        }
        // C04 / C11: incremental release.  Whenever the source is asked for more input, every chunk whose record was
        // completely consumed before the last two records has already been written AND flushed.
        let lg = log.borrow();
        let mut consumed = 0usize; let mut written = 0usize;
        for e in lg.iter() {
            match *e {
                Ev::R(n) => {
                    let mut due = 0usize; let mut cnt = 0usize;
                    for (end, _) in marks.iter() { if *end <= consumed { cnt += 1; } }
                    // chunk j has seen cnt-1-j further chunks consumed; more than two => it must have been written
                    if cnt > 3 { for (_, l) in marks.iter().take(cnt - 3) { due += *l; } }
                    if written < due && !w.failed && !r.failed {
                        st.fail(&format!("input consumed up to byte {} (more than two further chunks) while only {} of {} due plaintext bytes were written", consumed, written, due), s, one_r, one_w, rf, wf); return;
                    }
                    consumed += n;
                }
                Ev::W(n) => { written += n; }
                Ev::F => {}
            }
        }
        // C04: nothing is written before the chunk it belongs to has been read completely (hence verified by the model)
        let mut consumed = 0usize; let mut written = 0usize;
        for e in lg.iter() {
            match *e {
                Ev::R(n) => consumed += n,
                Ev::W(n) => {
                    written += n;
                    let mut allowed = 0usize;
                    for (end, l) in marks.iter() { if *end <= consumed { allowed += *l; } }
                    if written > allowed { st.fail("plaintext written before its chunk was completely read and verified", s, one_r, one_w, rf, wf); return; }
                }
                Ev::F => {}
            }
        }
    }

    #[test]
    fn verif_oracle_sweep_dec() {
        let key = [9u8; 32];
        let aad = [0xa5u8; 3];
        let mut st = Stats { n: 0, bad: 0, first: None };
        let pts: [&[u8]; 3] = [&[], &[0x41], &[0x42, 0x43]];
        let mut shapes: Vec<Vec<usize>> = Vec::new();
        for a in 0..3 { shapes.push(vec![a]); for b in 0..3 { shapes.push(vec![a, b]); for c in 0..3 { shapes.push(vec![a, b, c]); } } }
        // C11: longer authentic streams (4 and 5 chunks), unmutated
        for a in 0..3 { for b in 0..3 { for c in 0..3 { for d in 0..3 {
            for e in 0..4 {
                let mut shape = vec![a, b, c, d]; if e < 3 { shape.push(e); }
                let k = shape.len();
                let auth: Vec<u8> = (0..k).map(|i| record(&key, &aad, i as u64, i == k - 1, pts[shape[i]])).collect::<Vec<_>>().concat();
                run(&mut st, &auth, &key, &aad, false, false, usize::MAX, usize::MAX);
                run(&mut st, &auth, &key, &aad, true, true, usize::MAX, usize::MAX);
            }
        } } } }
        for shape in shapes.iter() {
            let k = shape.len();
            let recs: Vec<Vec<u8>> = (0..k).map(|i| record(&key, &aad, i as u64, i == k - 1, pts[shape[i]])).collect();
            let auth: Vec<u8> = recs.concat();
            let mut streams: Vec<Vec<u8>> = vec![auth.clone()];
            for t in 0..auth.len() { streams.push(auth[..t].to_vec()); }
            let mut ext = auth.clone(); ext.push(0); streams.push(ext);
            for b in 0..auth.len() { for bit in [0u8, 7u8] { let mut m = auth.clone(); m[b] ^= 1 << bit; streams.push(m); } }
            for i in 0..k { for j in 0..k { if i != j {
                let mut rr = recs.clone(); rr.swap(i, j); streams.push(rr.concat());          // reorder
            } } }
            for i in 0..k {
                let mut rr = recs.clone(); rr.insert(i, recs[i].clone()); streams.push(rr.concat());   // duplicate
                let mut rr = recs.clone(); rr.remove(i); streams.push(rr.concat());                    // drop
                // a record of another authentic file (different key) spliced in
                let mut rr = recs.clone(); rr[i] = record(&[8u8; 32], &aad, i as u64, i == k - 1, pts[shape[i]]); streams.push(rr.concat());
                // the same plaintext sealed for another position / with the other flag
                let mut rr = recs.clone(); rr[i] = record(&key, &aad, (i + 1) as u64, i == k - 1, pts[shape[i]]); streams.push(rr.concat());
                let mut rr = recs.clone(); rr[i] = record(&key, &aad, i as u64, i != k - 1, pts[shape[i]]); streams.push(rr.concat());
            }
            for s in streams.iter() {
                for &(o_r, o_w) in [(false, false), (true, true)].iter() {
                    run(&mut st, s, &key, &aad, o_r, o_w, usize::MAX, usize::MAX);
                }
            }
            // every single fault position on the authentic stream
            for rf in 0..(3 * k + 2) { run(&mut st, &auth, &key, &aad, false, false, rf, usize::MAX); }
            for wf in 0..(2 * k + 1) { run(&mut st, &auth, &key, &aad, false, false, usize::MAX, wf); }
            for wf in 0..(3 * k + 1) { run(&mut st, &auth, &key, &aad, true, true, usize::MAX, wf); }
        }
        println!("VERIF_ORACLE verif_oracle_sweep_dec cases={} disagreements={} first={:?}", st.n, st.bad, st.first);
        assert!(st.bad == 0, "real decrypt_chunks disagrees with the documented format on {} of {} cases; first: {:?}", st.bad, st.n, st.first);
    }
}
