//@ append src/crypto/src/encrypt.rs
//@ native verif_oracle_sweep_enc "bounded stand-in / witness finder: the executable transcription of the documented chunk stream agrees with the real encrypt_chunks (real AEAD) on every case with <= 3 plaintext bytes, chunk size 2, all read splits and every single read / write / flush fault position (12544 cases)"
//@ xharness-not-registered enc_chunks_case bounded "plaintext <= 3 bytes, chunk_size 2, <= 5 reads, one optional read fault and one optional write/flush fault; AEAD stubbed by a loop-free deterministic model with a 2-byte tag" unwind=10 stubs=1 replay=verif_replay_enc
// Bounded stand-in + witness finder for encrypt_chunks on the REAL code.  The same `run_case` runs natively
// (cargo test, real ChaCha20-Poly1305) to replay a witness: the oracle only uses crate primitives, so it is
// the same check whether they are stubbed (Kani) or real (replay).
#[cfg(any(kani, test))]
#[allow(dead_code)]
pub(crate) mod verif_h_enc {
    use super::*;
    use std::io::{Read, Write};

    pub const OUT_MAX: usize = 200;
    pub struct SReader { pub data: [u8; 3], pub len: usize, pub pos: usize, pub sizes: [usize; 5], pub call: usize, pub fail_at: usize,
                         pub hist: [usize; 6], pub nhist: usize, pub failed: bool }
    impl Read for SReader {
        fn read(&mut self, buf: &mut [u8]) -> std::io::Result<usize> {
            let c = self.call; self.call += 1;
            if c == self.fail_at { self.failed = true; return Err(std::io::Error::from(std::io::ErrorKind::Other)); }
            let rem = self.len - self.pos;
            if rem == 0 || buf.is_empty() { return Ok(0); }
            let mut n = if c < 5 { self.sizes[c] } else { 1 };
            if n == 0 { n = 1; }
            if n > rem { n = rem; }
            if n > buf.len() { n = buf.len(); }
            let mut i = 0;
            while i < n { buf[i] = self.data[self.pos + i]; i += 1; }
            self.pos += n;
            if self.nhist < 6 { self.hist[self.nhist] = n; self.nhist += 1; }
            Ok(n)
        }
    }
    pub struct SWriter { pub out: [u8; OUT_MAX], pub n: usize, pub call: usize, pub fail_at: usize, pub partial: usize, pub failed: bool, pub overflow: bool }
    impl SWriter {
        fn put(&mut self, buf: &[u8], k: usize) {
            if self.n + k <= OUT_MAX {
                self.out[self.n..self.n + k].copy_from_slice(&buf[..k]);
                self.n += k;
            } else { self.overflow = true; }
        }
    }
    impl Write for SWriter {
        fn write(&mut self, buf: &[u8]) -> std::io::Result<usize> {
            let c = self.call; self.call += 1;
            if c == self.fail_at {
                self.failed = true;
                let k = if self.partial < buf.len() { self.partial } else { buf.len() };
                self.put(buf, k);
                return Err(std::io::Error::from(std::io::ErrorKind::Other));
            }
            self.put(buf, buf.len());
            Ok(buf.len())
        }
        fn flush(&mut self) -> std::io::Result<()> {
            let c = self.call; self.call += 1;
            if c == self.fail_at { self.failed = true; return Err(std::io::Error::from(std::io::ErrorKind::Other)); }
            Ok(())
        }
    }

    /// byte `at` of the documented chunk stream for a read history (docs/file-format.txt), over the crate's own
    /// AEAD; None if the stream is shorter.  Also returns the total length.
    pub fn ref_enc_byte(key: &[u8], aad: &[u8], data: &[u8; 3], hist: &[usize], at: usize) -> (Option<u8>, usize) {
        let n = if hist.is_empty() { 1 } else { hist.len() };
        let mut pos = 0usize;   // position in data
        let mut off = 0usize;   // offset in the stream
        let mut found: Option<u8> = None;
        let mut i = 0usize;
        while i < n {
            let len = if hist.is_empty() { 0 } else { hist[i] };
            let last: u32 = if i == n - 1 { 1 } else { 0 };
            let mut ad = [0u8; 12];
            let al = aad.len();
            let mut j = 0; while j < al { ad[j] = aad[j]; j += 1; }
            let lb = last.to_be_bytes(); let nb = (len as u32).to_be_bytes();
            j = 0; while j < 4 { ad[al + j] = lb[j]; ad[al + 4 + j] = nb[j]; j += 1; }
            let ct = crate::chapoly_encrypt_noise(key, i as u64, &ad[..al + 8], &data[pos..pos + len]);
            let ib = (i as u64).to_be_bytes();
            if at >= off && at < off + 8 { found = Some(ib[at - off]); }
            if at >= off + 8 && at < off + 12 { found = Some(lb[at - off - 8]); }
            if at >= off + 12 && at < off + 16 { found = Some(nb[at - off - 12]); }
            if at >= off + 16 && at < off + 16 + ct.len() { found = Some(ct[at - off - 16]); }
            off += 16 + ct.len();
            pos += len;
            i += 1;
        }
        (found, off)
    }

    /// returns 0 if every check holds, otherwise the number of the violated check.
    /// `probe`: Some(i) compares only output byte i with the reference (Kani: i symbolic); None compares all.
    pub fn run_case(inp: &[u8; 12], probe: Option<usize>) -> u32 {
        let len = (inp[0] % 4) as usize;
        let data = [inp[1], inp[2], inp[3]];
        let sizes = [1 + (inp[4] % 2) as usize, 1 + (inp[5] % 2) as usize, 1 + (inp[6] % 2) as usize, 1 + (inp[7] % 2) as usize, 1 + (inp[8] % 2) as usize];
        let rfail = if inp[9] % 8 < 6 { (inp[9] % 8) as usize } else { usize::MAX };
        let wfail = if inp[10] % 16 < 13 { (inp[10] % 16) as usize } else { usize::MAX };
        let partial = (inp[11] % 20) as usize;
        let key = [7u8; 32];
        let aad: [u8; 0] = [];
        let mut r = SReader { data, len, pos: 0, sizes, call: 0, fail_at: rfail, hist: [0; 6], nhist: 0, failed: false };
        let mut w = SWriter { out: [0u8; OUT_MAX], n: 0, call: 0, fail_at: wfail, partial, failed: false, overflow: false };
        let res = encrypt_chunks(&mut r, &mut w, &key, &aad, 2);
        if w.overflow { return 20; }
        let (_, total) = ref_enc_byte(&key, &aad, &data, &r.hist[..r.nhist], 0);
        // 1: without any injected fault the result is Ok, everything was read, and the output is the documented stream
        if !r.failed && !w.failed {
            if res.is_err() { return 1; }
            if r.pos != len { return 2; }
            if w.n != total { return 3; }
        }
        // 2: an injected fault surfaces as the error of the failing side; never Ok
        if r.failed || w.failed {
            match &res {
                Ok(()) => return 4,
                Err(EncryptError::IORead(_)) => { if !r.failed { return 5; } }
                Err(EncryptError::IOWrite(_)) => { if !w.failed { return 6; } }
                Err(_) => return 7,
            }
        }
        // 3: what has been written is a prefix of the fault-free output for the same read partition
        if w.n > total { return 8; }
        match probe {
            Some(i) => {
                if i < w.n {
                    let (b, _) = ref_enc_byte(&key, &aad, &data, &r.hist[..r.nhist], i);
                    if b != Some(w.out[i]) { return 9; }
                }
            }
            None => {
                let mut i = 0;
                while i < w.n {
                    let (b, _) = ref_enc_byte(&key, &aad, &data, &r.hist[..r.nhist], i);
                    if b != Some(w.out[i]) { return 9; }
                    i += 1;
                }
            }
        }
        0
    }

    #[cfg(kani)]
    pub fn stub_enc(key: &[u8], nonce: u64, ad: &[u8], plaintext: &[u8]) -> Vec<u8> {
        // loop-free deterministic AEAD model for plaintexts of <= 2 bytes:
        // body = pt ^ 0x5a, 2-byte tag = (nonce ^ flag byte ^ key[0]) , (length byte + pt[0] + 3*pt[1])
        let l = plaintext.len();
        let mut out = vec![0u8; l + 2];
        let p0 = if l > 0 { plaintext[0] } else { 0 };
        let p1 = if l > 1 { plaintext[1] } else { 0 };
        if l > 0 { out[0] = p0 ^ 0x5a; }
        if l > 1 { out[1] = p1 ^ 0x5a; }
        let al = ad.len();
        let flag = if al >= 5 { ad[al - 5] } else { 0 };
        let lenb = if al >= 1 { ad[al - 1] } else { 0 };
        out[l] = (nonce as u8) ^ flag.wrapping_mul(7) ^ key[0];
        out[l + 1] = lenb.wrapping_add(p0).wrapping_add(p1.wrapping_mul(3));
        out
    }

    #[cfg(kani)]
    #[kani::proof]
    #[kani::unwind(10)]
    #[kani::stub(crate::chapoly_encrypt_noise, stub_enc)]
    fn enc_chunks_case() {
        let inp: [u8; 12] = kani::any();
        let probe: usize = kani::any();
        kani::assume(probe < OUT_MAX);
        let code = run_case(&inp, Some(probe));
        assert!(code == 0, "encrypt_chunks violates its contract on this case");
    }

    #[cfg(test)]
    #[test]
    fn verif_oracle_sweep_enc() {
        let mut n = 0u32; let mut bad = 0u32; let mut first: Option<([u8; 12], u32)> = None;
        for len in 0u8..4 { for split in 0u8..32 { for rf in 0u8..7 { for wf in 0u8..14 {
            let inp = [len, 0x11, 0x22, 0x33, split & 1, (split >> 1) & 1, (split >> 2) & 1, (split >> 3) & 1, (split >> 4) & 1,
                       if rf < 6 { rf } else { 7 }, if wf < 13 { wf } else { 15 }, 1];
            let code = match std::panic::catch_unwind(|| run_case(&inp, None)) { Ok(c) => c, Err(_) => 99 };
            n += 1;
            if code != 0 { bad += 1; if first.is_none() { first = Some((inp, code)); } }
        }}}}
        println!("VERIF_ORACLE verif_oracle_sweep_enc cases={} disagreements={} first={:?}", n, bad, first.map(|(i, c)| format!("input bytes {:?} (len, data x3, read sizes x5, read fault at, write fault at, partial) violates check {} (1-3 fault-free result/length, 4-7 fault reporting, 8-9 prefix of the documented stream, 99 panic); replay: VERIF_WITNESS={} cargo test verif_replay_enc", i, c, i.iter().map(|b| b.to_string()).collect::<Vec<_>>().join(","))));
        assert!(bad == 0, "real encrypt_chunks disagrees with the documented chunk stream on {} of {} cases, first {:?}", bad, n, first);
    }

    #[cfg(test)]
    #[test]
    fn verif_replay_enc() {
        let hex = std::env::var("VERIF_WITNESS").unwrap_or_default();
        let mut inp = [0u8; 12];
        let bytes: Vec<u8> = hex.split(',').filter(|s| !s.trim().is_empty()).map(|s| s.trim().parse::<u8>().unwrap()).collect();
        for (i, b) in bytes.iter().take(12).enumerate() { inp[i] = *b; }
        let code = run_case(&inp, None);
        println!("VERIF_REPLAY harness=enc_chunks_case input={:?} check_code={}", inp, code);
        assert!(code == 0, "real code violates check {} on witness {:?}", code, inp);
    }
}
