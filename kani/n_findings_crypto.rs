//@ append src/crypto/src/decrypt.rs
//@ native verif_finding_f_hmac_pass "C02 known finding F-HMAC: a password with the same HMAC key block decrypts the file"
// Witness replay for known finding F-HMAC on the real code (native test, real scrypt / ChaCha20-Poly1305).
// The test asserts the property AS WORDED (any different password is rejected); it FAILS while the finding exists.
#[cfg(test)]
mod verif_findings {
    use crate::encrypt::pass_encrypt;
    use crate::decrypt::pass_decrypt;
    use crate::PassFileFormat;
    fn accepted(w: &[u8], w2: &[u8]) -> bool {
        let pt = b"attack at dawn".to_vec();
        let mut ct = Vec::new();
        pass_encrypt(&mut pt.as_slice(), &mut ct, w, [7u8; 32], PassFileFormat::V1).unwrap();
        let mut out = Vec::new();
        let r = pass_decrypt(&mut ct.as_slice(), &mut out, w2, PassFileFormat::V1);
        r.is_ok() && out == pt
    }
    #[test]
    fn verif_finding_f_hmac_pass() {
        let a = accepted(b"abc", b"abc\0");
        let long = [b'x'; 70];
        let h = crate::sha256(&long);
        let b = accepted(&long, &h);
        let c = accepted(b"abc", b"abd");      // control: an unrelated password must be rejected
        println!("VERIF_FINDING F-HMAC zero_padded_accepted={} sha256_of_long_accepted={} unrelated_accepted={}", a, b, c);
        assert!(!c, "an unrelated password was accepted");
        assert!(!a && !b, "passwords with the same HMAC-SHA256 key block are interchangeable");
    }
}
