//@ create src/cli/tests/verif_argv.rs
//@ native verif_oracle_argv_sweep "bounded stand-in / witness finder (C09, C13): the built kestrel binary (stdin closed, no controlling terminal, KESTREL_* unset, scratch working directory) on every argument vector of length <= 2 over 38 tokens (commands, options, aliases, paths of the shipped test keyring / data files, a missing path, an absent output path, empty and non-ASCII strings), every length-3 vector starting with a command word, and 60 complete command lines with one element dropped, duplicated or replaced: exit status is 0 or 1, never a signal or panic text; status 1 carries an 'Error:' line; a failed run never leaves a file at the absent output path"
// Native oracle on the REAL binary.  Never counted as proved; a disagreement is a concrete failing argument vector.
use std::path::PathBuf;
use std::process::{Command, Stdio};

static VERIF_EXE: &str = env!("CARGO_BIN_EXE_kestrel");

fn verif_run(dir: &PathBuf, args: &[String], out: &PathBuf) -> Option<String> {
    let _ = std::fs::remove_file(out);
    let have_setsid = std::path::Path::new("/usr/bin/setsid").exists();
    let mut c = if have_setsid { let mut c = Command::new("/usr/bin/setsid"); c.arg("-w").arg(VERIF_EXE); c } else { Command::new(VERIF_EXE) };
    c.args(args).current_dir(dir).stdin(Stdio::null()).stdout(Stdio::piped()).stderr(Stdio::piped())
        .env_remove("KESTREL_PASSWORD").env_remove("KESTREL_NEW_PASSWORD").env_remove("KESTREL_KEYRING").env("HOME", dir);
    let child = match c.spawn() { Ok(ch) => ch, Err(e) => return Some(format!("could not start the binary: {}", e)) };
    let o = match child.wait_with_output() { Ok(o) => o, Err(e) => return Some(format!("wait failed: {}", e)) };
    let err = String::from_utf8_lossy(&o.stderr).to_string();
    let created = out.exists();
    let _ = std::fs::remove_file(out);
    match o.status.code() {
        None => return Some(format!("killed by a signal ({:?})", o.status)),
        Some(0) => {}
        Some(1) => {
            if !err.contains("Error:") { return Some(format!("exit status 1 without an 'Error:' line (stderr {:?})", err)); }
            if created { return Some("failed (exit status 1) but created the output file".to_string()); }
        }
        Some(c) => return Some(format!("exit status {} (stderr {:?})", c, &err[..err.len().min(300)])),
    }
    if err.contains("panicked at") { return Some(format!("panic text on stderr: {:?}", &err[..err.len().min(300)])); }
    None
}

#[test]
fn verif_oracle_argv_sweep() {
    let mut dir = std::env::temp_dir();
    dir.push(format!("verif-argv-{}", std::process::id()));
    let _ = std::fs::remove_dir_all(&dir);
    std::fs::create_dir_all(&dir).unwrap();
    let tests = PathBuf::from(env!("CARGO_MANIFEST_DIR")).join("tests");
    let keyring = tests.join("keyring.txt").to_string_lossy().to_string();
    let data = tests.join("data.txt").to_string_lossy().to_string();
    let ktl = tests.join("data.txt.ktl").to_string_lossy().to_string();
    let pktl = tests.join("pdata.txt.ktl").to_string_lossy().to_string();
    let out = dir.join("out.bin");
    let outs = out.to_string_lossy().to_string();
    let missing = dir.join("no-such-file").to_string_lossy().to_string();
    let toks: Vec<String> = ["encrypt", "enc", "decrypt", "dec", "key", "gen", "generate", "change-pass", "extract-pub", "password", "pass",
        "-t", "--to", "-f", "--from", "-o", "--output", "-k", "--keyring", "--env-pass", "-h", "--help", "-v", "--version", "--", "-", "",
        "alice", "nokey", "-x", "--bogus", "\u{e9}\u{1f511}", "a=b"].iter().map(|s| s.to_string())
        .chain(vec![keyring.clone(), data.clone(), ktl.clone(), missing.clone(), outs.clone()].into_iter()).collect();
    let mut vectors: Vec<Vec<String>> = vec![vec![]];
    for a in toks.iter() { vectors.push(vec![a.clone()]); for b in toks.iter() { vectors.push(vec![a.clone(), b.clone()]); } }
    for a in ["key", "password", "encrypt", "decrypt"] { for b in toks.iter() { for c in toks.iter() { vectors.push(vec![a.to_string(), b.clone(), c.clone()]); } } }
    let full: Vec<Vec<String>> = vec![
        vec!["encrypt", &data, "-t", "alice", "-f", "bob", "-o", &outs, "-k", &keyring, "--env-pass"],
        vec!["decrypt", &ktl, "-t", "alice", "-o", &outs, "-k", &keyring, "--env-pass"],
        vec!["password", "encrypt", &data, "-o", &outs, "--env-pass"],
        vec!["password", "decrypt", &pktl, "-o", &outs, "--env-pass"],
        vec!["key", "generate", "-o", &outs, "--env-pass"],
        vec!["key", "change-pass", "ZWdrMNgYZk3ECRscuyfyjc0qaMuv2h6/AnTIOKXhvusYrp8gRkbevOql6RfkZUcUTAeZIS9mDDI0p1c03jihe4tHUdYdLaYX0lplA6iTEG88h78n", "--env-pass"],
        vec!["key", "extract-pub", "not-a-key", "--env-pass"],
    ].into_iter().map(|v| v.into_iter().map(|s| s.to_string()).collect()).collect();
    for f in full.iter() {
        vectors.push(f.clone());
        for i in 0..f.len() {
            let mut v = f.clone(); v.remove(i); vectors.push(v);
            let mut v = f.clone(); v.insert(i, f[i].clone()); vectors.push(v);
            let mut v = f.clone(); v[i] = missing.clone(); vectors.push(v);
        }
    }
    let mut n = 0u32; let mut bad = 0u32; let mut first: Option<String> = None;
    for v in vectors.iter() {
        n += 1;
        if let Some(what) = verif_run(&dir, v, &out) {
            bad += 1;
            if first.is_none() { first = Some(format!("kestrel {:?}: {}", v, what)); }
        }
    }
    let _ = std::fs::remove_dir_all(&dir);
    println!("VERIF_ORACLE verif_oracle_argv_sweep cases={} disagreements={} first={:?}", n, bad, first);
    assert!(bad == 0, "the binary misbehaves on {} of {} argument vectors; first: {:?}", bad, n, first);
}
