//@ create src/cli/tests/verif_argv.rs
//@ native verif_oracle_cli_flows "bounded stand-in / witness finder (C01, C02, C05, C07, C08, C13, C16): the built kestrel binary on the shipped two-key keyring: encrypt for every (from, to) in {alice, bob}^2 (incl. to self) with an empty, a 10-byte and a 70000-byte input, file length = 132 + 32 per chunk + plaintext, the same number of bytes and the magic when the ciphertext goes to standard output, decrypt as each key succeeds exactly for `to`, returns the input and names `from`, a failed decrypt leaves no output file and an existing one intact; with the last chunk of a two-chunk file corrupted the output holds exactly the first chunk and the exit status is 1; the same path as input and output is refused by all four file commands and the file stays intact; a key re-locked under the empty password encrypts and decrypts; password mode round trip (also with an unrelated KESTREL_NEW_PASSWORD exported), rejection of a different password and of the password with a trailing space, tab or newline; extract-pub accepts the key's password and rejects it with a trailing newline / CR LF / space, a leading space, or one letter changed; change-pass (also to a password ending in a newline, and to the empty password) keeps the public key, makes the old password fail, draws a new salt also when the new password equals the old one; two identical encrypt invocations differ in their ephemeral key"
//@ native verif_oracle_argv_sweep "bounded stand-in / witness finder (C09, C13): the built kestrel binary (stdin closed, no controlling terminal, KESTREL_* unset, scratch working directory) on every argument vector of length <= 2 over 38 tokens (commands, options, aliases, paths of the shipped test keyring / data files, a missing path, an absent output path, empty and non-ASCII strings), every length-3 vector starting with a command word, and 7 complete command lines with each element in turn dropped, duplicated, or replaced by a missing path or one of 10 degenerate strings ('', '.', '..', '/', ...): exit status is 0 or 1, never a signal or panic text; status 1 carries an 'Error:' line; a failed run never leaves a file at the absent output path"
//@ native verif_oracle_keygen_append "bounded stand-in / witness finder (C14): the built kestrel binary runs `key generate -o F --env-pass` (name on standard input) 1..3 times on one file F, starting from an absent file, from an empty file, from a file holding a shipped two-key keyring, from that keyring without its final line break, through a symbolic link to such a file, and from a file holding unrelated text: after every run the earlier contents of F are a byte prefix of the new contents, a run on an absent file creates exactly one section without a leading blank line, and after every run on a keyring file the newest key and the first key generated encrypt to each other and to themselves (`encrypt -k F`) and decrypts under its own password with the sender named"
// Native oracle on the REAL binary.  Never counted as proved; a disagreement is a concrete failing argument vector.
use std::path::PathBuf;
use std::process::{Command, Stdio};

static VERIF_EXE: &str = env!("CARGO_BIN_EXE_kestrel");

fn verif_run(dir: &PathBuf, args: &[String], out: &PathBuf) -> Option<String> {
    let _ = std::fs::remove_file(out);
    let have_setsid = std::path::Path::new("/usr/bin/setsid").exists();
    let mut c = if have_setsid { let mut c = Command::new("/usr/bin/setsid"); c.arg("-w").arg(VERIF_EXE); c } else { Command::new(VERIF_EXE) };
    c.args(args).current_dir(dir).stdin(Stdio::null()).stdout(Stdio::piped()).stderr(Stdio::piped())
        .env_remove("KESTREL_PASSWORD").env_remove("KESTREL_NEW_PASSWORD").env_remove("KESTREL_KEYRING").env("HOME", dir);
    let child = match c.spawn() { Ok(ch) => ch, Err(e) => return Some(format!("could not start the binary: {}", e)) };
    let o = match child.wait_with_output() { Ok(o) => o, Err(e) => return Some(format!("wait failed: {}", e)) };
    let err = String::from_utf8_lossy(&o.stderr).to_string();
    let created = out.exists();
    let _ = std::fs::remove_file(out);
    match o.status.code() {
        None => return Some(format!("killed by a signal ({:?})", o.status)),
        Some(0) => {}
        Some(1) => {
            if !err.contains("Error:") { return Some(format!("exit status 1 without an 'Error:' line (stderr {:?})", err)); }
            if created { return Some("failed (exit status 1) but created the output file".to_string()); }
        }
        Some(c) => return Some(format!("exit status {} (stderr {:?})", c, &err[..err.len().min(300)])),
    }
    if err.contains("panicked at") { return Some(format!("panic text on stderr: {:?}", &err[..err.len().min(300)])); }
    None
}

#[test]
fn verif_oracle_argv_sweep() {
    let mut dir = std::env::temp_dir();
    dir.push(format!("verif-argv-{}", std::process::id()));
    let _ = std::fs::remove_dir_all(&dir);
    std::fs::create_dir_all(&dir).unwrap();
    let tests = PathBuf::from(env!("CARGO_MANIFEST_DIR")).join("tests");
    let keyring = tests.join("keyring.txt").to_string_lossy().to_string();
    let data = tests.join("data.txt").to_string_lossy().to_string();
    let ktl = tests.join("data.txt.ktl").to_string_lossy().to_string();
    let pktl = tests.join("pdata.txt.ktl").to_string_lossy().to_string();
    let out = dir.join("out.bin");
    let outs = out.to_string_lossy().to_string();
    let missing = dir.join("no-such-file").to_string_lossy().to_string();
    let toks: Vec<String> = ["encrypt", "enc", "decrypt", "dec", "key", "gen", "generate", "change-pass", "extract-pub", "password", "pass",
        "-t", "--to", "-f", "--from", "-o", "--output", "-k", "--keyring", "--env-pass", "-h", "--help", "-v", "--version", "--", "-", "",
        "alice", "nokey", "-x", "--bogus", "\u{e9}\u{1f511}", "a=b"].iter().map(|s| s.to_string())
        .chain(vec![keyring.clone(), data.clone(), ktl.clone(), missing.clone(), outs.clone()].into_iter()).collect();
    let mut vectors: Vec<Vec<String>> = vec![vec![]];
    for a in toks.iter() { vectors.push(vec![a.clone()]); for b in toks.iter() { vectors.push(vec![a.clone(), b.clone()]); } }
    for a in ["key", "password", "encrypt", "decrypt"] { for b in toks.iter() { for c in toks.iter() { vectors.push(vec![a.to_string(), b.clone(), c.clone()]); } } }
    let full: Vec<Vec<String>> = vec![
        vec!["encrypt", &data, "-t", "alice", "-f", "bob", "-o", &outs, "-k", &keyring, "--env-pass"],
        vec!["decrypt", &ktl, "-t", "alice", "-o", &outs, "-k", &keyring, "--env-pass"],
        vec!["password", "encrypt", &data, "-o", &outs, "--env-pass"],
        vec!["password", "decrypt", &pktl, "-o", &outs, "--env-pass"],
        vec!["key", "generate", "-o", &outs, "--env-pass"],
        vec!["key", "change-pass", "ZWdrMNgYZk3ECRscuyfyjc0qaMuv2h6/AnTIOKXhvusYrp8gRkbevOql6RfkZUcUTAeZIS9mDDI0p1c03jihe4tHUdYdLaYX0lplA6iTEG88h78n", "--env-pass"],
        vec!["key", "extract-pub", "not-a-key", "--env-pass"],
    ].into_iter().map(|v| v.into_iter().map(|s| s.to_string()).collect()).collect();
    for f in full.iter() {
        vectors.push(f.clone());
        for i in 0..f.len() {
            let mut v = f.clone(); v.remove(i); vectors.push(v);
            let mut v = f.clone(); v.insert(i, f[i].clone()); vectors.push(v);
            let mut v = f.clone(); v[i] = missing.clone(); vectors.push(v);
            // path-like and degenerate strings in every position (path handling must not unwrap on them)
            for odd in ["", ".", "..", "/", "./", "a/..", "-", "--", "\u{e9}", " "] {
                let mut v = f.clone(); v[i] = odd.to_string(); vectors.push(v);
            }
        }
    }
    let mut n = 0u32; let mut bad = 0u32; let mut first: Option<String> = None;
    // without setsid(1) a prompt could reach a controlling terminal and wait for it: then the sweep is not run at all
    if !std::path::Path::new("/usr/bin/setsid").exists() { vectors.clear(); }
    for v in vectors.iter() {
        n += 1;
        if let Some(what) = verif_run(&dir, v, &out) {
            bad += 1;
            if first.is_none() { first = Some(format!("kestrel {:?}: {}", v, what)); }
        }
    }
    let _ = std::fs::remove_dir_all(&dir);
    println!("VERIF_ORACLE verif_oracle_argv_sweep cases={} disagreements={} first={:?}", n, bad, first);
    assert!(bad == 0, "the binary misbehaves on {} of {} argument vectors; first: {:?}", bad, n, first);
}

struct VRun { code: Option<i32>, err: String, out: Vec<u8> }
fn verif_cmd(dir: &PathBuf, args: &[&str], envs: &[(&str, &str)]) -> VRun {
    let mut c = Command::new(VERIF_EXE);
    c.args(args).current_dir(dir).stdin(Stdio::null()).stdout(Stdio::piped()).stderr(Stdio::piped())
        .env_remove("KESTREL_PASSWORD").env_remove("KESTREL_NEW_PASSWORD").env_remove("KESTREL_KEYRING").env("HOME", dir);
    for (k, v) in envs { c.env(k, v); }
    match c.spawn().and_then(|ch| ch.wait_with_output()) {
        Ok(o) => VRun { code: o.status.code(), err: String::from_utf8_lossy(&o.stderr).to_string(), out: o.stdout },
        Err(e) => VRun { code: None, err: format!("spawn failed: {}", e), out: Vec::new() },
    }
}

#[test]
fn verif_oracle_cli_flows() {
    let mut dir = std::env::temp_dir();
    dir.push(format!("verif-flows-{}", std::process::id()));
    let _ = std::fs::remove_dir_all(&dir);
    std::fs::create_dir_all(&dir).unwrap();
    let tests = PathBuf::from(env!("CARGO_MANIFEST_DIR")).join("tests");
    let keyring = tests.join("keyring.txt").to_string_lossy().to_string();
    let p = |n: &str| dir.join(n).to_string_lossy().to_string();
    let mut n = 0u32; let mut bad = 0u32; let mut first: Option<String> = None;
    let mut fail = |bad: &mut u32, first: &mut Option<String>, what: String| { *bad += 1; if first.is_none() { *first = Some(what); } };
    let empty: Vec<u8> = Vec::new();
    std::fs::write(p("empty"), &empty).unwrap();
    let small: Vec<u8> = b"0123456789".to_vec();
    let big: Vec<u8> = (0..70000u32).map(|i| (i * 31 + 7) as u8).collect();
    std::fs::write(p("small"), &small).unwrap(); std::fs::write(p("big"), &big).unwrap();
    let users = [("alice", "alice"), ("bob", "bob")];
    // ---- key mode: every (from, to), both sizes
    for (from, fpw) in users.iter() { for (to, _tpw) in users.iter() { for (inp, data) in [("small", &small), ("big", &big), ("empty", &empty)] {
        n += 1;
        let ct = p("ct"); let _ = std::fs::remove_file(&ct);
        let r = verif_cmd(&dir, &["encrypt", &p(inp), "-t", to, "-f", from, "-o", &ct, "-k", &keyring, "--env-pass"], &[("KESTREL_PASSWORD", fpw)]);
        if r.code != Some(0) { fail(&mut bad, &mut first, format!("encrypt {} from {} to {}: exit {:?} {}", inp, from, to, r.code, r.err)); continue; }
        let ctb = std::fs::read(&ct).unwrap_or_default();
        let chunks = if data.is_empty() { 1 } else { (data.len() + 65535) / 65536 };
        if ctb.len() != 132 + 32 * chunks + data.len() { fail(&mut bad, &mut first, format!("encrypt {} from {} to {}: file length {} is not 132 + 32*{} + {}", inp, from, to, ctb.len(), chunks, data.len())); }
        if inp == "small" {
            // the same encryption with the ciphertext on standard output: nothing but the file may appear there
            n += 1;
            let r2 = verif_cmd(&dir, &["encrypt", &p(inp), "-t", to, "-f", from, "-k", &keyring, "--env-pass"], &[("KESTREL_PASSWORD", fpw)]);
            if r2.code != Some(0) || r2.out.len() != ctb.len() || r2.out[..4] != ctb[..4] {
                fail(&mut bad, &mut first, format!("encrypt from {} to {} to standard output: exit {:?}, {} bytes (the file written with -o has {}), first bytes {:02x?}", from, to, r2.code, r2.out.len(), ctb.len(), &r2.out[..r2.out.len().min(8)]));
            }
        }
        for (reader, rpw) in users.iter() {
            n += 1;
            let out = p("pt"); std::fs::write(&out, b"PREVIOUS CONTENT").unwrap();
            if reader == to && inp == "empty" { let _ = std::fs::remove_file(&out); }     // an empty plaintext must still produce a (new, empty) file
            let d = verif_cmd(&dir, &["decrypt", &ct, "-t", reader, "-o", &out, "-k", &keyring, "--env-pass"], &[("KESTREL_PASSWORD", rpw)]);
            let got = std::fs::read(&out).unwrap_or_default();
            if reader == to {
                if inp == "empty" && !std::path::Path::new(&out).exists() { fail(&mut bad, &mut first, format!("empty file from {} to {}: decrypt as {} reports exit {:?} but leaves no output file", from, to, reader, d.code)); }
                else if d.code != Some(0) || got != **data { fail(&mut bad, &mut first, format!("file from {} to {} ({}): decrypt as {} gives exit {:?}, {} bytes, equal to the input: {} ({})", from, to, inp, reader, d.code, got.len(), got == **data, d.err.trim())); }
                else if !d.err.contains(&format!("File from: {}", from)) { fail(&mut bad, &mut first, format!("file from {} to {}: decrypt as {} does not name the sender: {:?}", from, to, reader, d.err)); }
            } else {
                if d.code != Some(1) { fail(&mut bad, &mut first, format!("file from {} to {}: decrypt as {} (not the recipient) exits {:?}", from, to, reader, d.code)); }
                else if got != b"PREVIOUS CONTENT" { fail(&mut bad, &mut first, format!("file from {} to {}: failed decrypt as {} changed the existing output file ({} bytes now)", from, to, reader, got.len())); }
            }
        }
    } } }
    // ---- C13 / C04 at the CLI: a later chunk fails => exit 1 and the output holds exactly the authenticated prefix
    for mode in ["key", "pass"] {
        n += 1;
        let ct = p("lct"); let out = p("lpt"); let _ = std::fs::remove_file(&ct); let _ = std::fs::remove_file(&out);
        let e = if mode == "key" { verif_cmd(&dir, &["encrypt", &p("big"), "-t", "bob", "-f", "alice", "-o", &ct, "-k", &keyring, "--env-pass"], &[("KESTREL_PASSWORD", "alice")]) }
                else { verif_cmd(&dir, &["password", "encrypt", &p("big"), "-o", &ct, "--env-pass"], &[("KESTREL_PASSWORD", "pw")]) };
        let mut b = std::fs::read(&ct).unwrap_or_default();
        if e.code != Some(0) || b.len() < 70000 { fail(&mut bad, &mut first, format!("{} mode: cannot produce the two-chunk file (exit {:?})", mode, e.code)); continue; }
        let l = b.len(); b[l - 1] ^= 1; std::fs::write(&ct, &b).unwrap();
        let d = if mode == "key" { verif_cmd(&dir, &["decrypt", &ct, "-t", "bob", "-o", &out, "-k", &keyring, "--env-pass"], &[("KESTREL_PASSWORD", "bob")]) }
                else { verif_cmd(&dir, &["password", "decrypt", &ct, "-o", &out, "--env-pass"], &[("KESTREL_PASSWORD", "pw")]) };
        let got = std::fs::read(&out).unwrap_or_default();
        if d.code != Some(1) || got != big[..65536] {
            fail(&mut bad, &mut first, format!("{} mode, last chunk of a two-chunk file corrupted: exit {:?}, output holds {} bytes, equal to the authenticated first chunk (65536 bytes): {}", mode, d.code, got.len(), got == big[..65536]));
        }
    }
    // ---- C13 "bad arguments": the same path as input and output is refused by all four file commands, the file stays intact
    {
        let ct = p("same_k"); let pct = p("same_p");
        let _ = verif_cmd(&dir, &["encrypt", &p("small"), "-t", "bob", "-f", "alice", "-o", &ct, "-k", &keyring, "--env-pass"], &[("KESTREL_PASSWORD", "alice")]);
        let _ = verif_cmd(&dir, &["password", "encrypt", &p("small"), "-o", &pct, "--env-pass"], &[("KESTREL_PASSWORD", "pw")]);
        let cases: Vec<(&str, Vec<String>, &str, String)> = vec![
            ("decrypt", vec!["decrypt".into(), ct.clone(), "-t".into(), "bob".into(), "-o".into(), ct.clone(), "-k".into(), keyring.clone(), "--env-pass".into()], "bob", ct.clone()),
            ("password decrypt", vec!["password".into(), "decrypt".into(), pct.clone(), "-o".into(), pct.clone(), "--env-pass".into()], "pw", pct.clone()),
            ("encrypt", vec!["encrypt".into(), p("small"), "-t".into(), "bob".into(), "-f".into(), "alice".into(), "-o".into(), p("small"), "-k".into(), keyring.clone(), "--env-pass".into()], "alice", p("small")),
            ("password encrypt", vec!["password".into(), "encrypt".into(), p("small"), "-o".into(), p("small"), "--env-pass".into()], "pw", p("small")),
        ];
        for (what, args, pw, path) in cases.iter() {
            n += 1;
            let before = std::fs::read(path).unwrap_or_default();
            let a: Vec<&str> = args.iter().map(|x| x.as_str()).collect();
            let r = verif_cmd(&dir, &a, &[("KESTREL_PASSWORD", pw)]);
            let after = std::fs::read(path).unwrap_or_default();
            if r.code != Some(1) || before != after { fail(&mut bad, &mut first, format!("`{}` with the same path as input and output: exit {:?}, file unchanged: {} ({} -> {} bytes)", what, r.code, before == after, before.len(), after.len())); }
        }
    }
    // ---- C15 / C16: a key locked under the EMPTY password is a key like any other for encrypt / decrypt
    {
        n += 1;
        let ring = std::fs::read_to_string(&keyring).unwrap();
        let alice_sk = ring.lines().find(|l| l.starts_with("PrivateKey")).unwrap().split_once('=').unwrap().1.trim().to_string();
        let c = verif_cmd(&dir, &["key", "change-pass", &alice_sk, "--env-pass"], &[("KESTREL_PASSWORD", "alice"), ("KESTREL_NEW_PASSWORD", "")]);
        let newk = String::from_utf8_lossy(&c.out).lines().find(|l| l.starts_with("PrivateKey")).map(|l| l.split_once('=').unwrap().1.trim().to_string());
        match newk {
            None => fail(&mut bad, &mut first, format!("change-pass alice -> empty password: exit {:?} {}", c.code, c.err.trim())),
            Some(k) => {
                let ring2 = ring.replacen(&alice_sk, &k, 1);
                let r2 = p("ring_empty"); std::fs::write(&r2, ring2).unwrap();
                let ct = p("ct_empty"); let out = p("pt_empty");
                let e = verif_cmd(&dir, &["encrypt", &p("small"), "-t", "alice", "-f", "alice", "-o", &ct, "-k", &r2, "--env-pass"], &[("KESTREL_PASSWORD", "")]);
                let d = verif_cmd(&dir, &["decrypt", &ct, "-t", "alice", "-o", &out, "-k", &r2, "--env-pass"], &[("KESTREL_PASSWORD", "")]);
                if e.code != Some(0) || d.code != Some(0) || std::fs::read(&out).unwrap_or_default() != small {
                    fail(&mut bad, &mut first, format!("a key locked under the empty password: encrypt exit {:?} ({}), decrypt exit {:?} ({})", e.code, e.err.trim(), d.code, d.err.trim()));
                }
            }
        }
    }
    // ---- C07: two identical invocations never share the ephemeral key (file bytes 4..36)
    {
        n += 1;
        let mut eph = Vec::new();
        for i in 0..3 {
            let ct = p(&format!("ct{}", i));
            let _ = verif_cmd(&dir, &["encrypt", &p("small"), "-t", "bob", "-f", "alice", "-o", &ct, "-k", &keyring, "--env-pass"], &[("KESTREL_PASSWORD", "alice")]);
            let b = std::fs::read(&ct).unwrap_or_default();
            eph.push(if b.len() >= 36 { b[4..36].to_vec() } else { vec![i as u8] });
        }
        if eph[0] == eph[1] || eph[0] == eph[2] || eph[1] == eph[2] { fail(&mut bad, &mut first, "identical encrypt invocations share an ephemeral public key".to_string()); }
    }
    // ---- password mode
    for pw in ["pass123", "hunter2 ", ""] {
        n += 1;
        let ct = p("pct"); let _ = std::fs::remove_file(&ct);
        let r = verif_cmd(&dir, &["password", "encrypt", &p("small"), "-o", &ct, "--env-pass"], &[("KESTREL_PASSWORD", pw)]);
        if r.code != Some(0) { fail(&mut bad, &mut first, format!("password encrypt under {:?}: exit {:?} {}", pw, r.code, r.err)); continue; }
        let l = std::fs::read(&ct).map(|b| b.len()).unwrap_or(0);
        if l != 36 + 32 + small.len() { fail(&mut bad, &mut first, format!("password encrypt: file length {} is not 36 + 32 + {}", l, small.len())); }
        let others: Vec<String> = vec![pw.to_string(), format!("{} ", pw), format!("{}\t", pw), format!("{}\n", pw), format!("{}x", pw), pw.trim_end().to_string() + "\u{a0}"];
        for (i, w) in others.iter().enumerate() {
            n += 1;
            let out = p("ppt"); let _ = std::fs::remove_file(&out);
            let d = verif_cmd(&dir, &["password", "decrypt", &ct, "-o", &out, "--env-pass"], &[("KESTREL_PASSWORD", w)]);
            let got = std::fs::read(&out).ok();
            if i == 0 {
                if d.code != Some(0) || got.as_deref() != Some(&small[..]) { fail(&mut bad, &mut first, format!("password round trip under {:?} fails: exit {:?} {}", pw, d.code, d.err.trim())); }
            } else if w != pw {
                if d.code != Some(1) || got.is_some() { fail(&mut bad, &mut first, format!("file encrypted under password {:?} is accepted under the different password {:?} (exit {:?}, output file created: {})", pw, w, d.code, got.is_some())); }
            }
        }
    }
    // ---- C02: the password of `password encrypt --env-pass` is KESTREL_PASSWORD, whatever else is exported
    {
        n += 1;
        let ct = p("pct2"); let out = p("ppt2"); let _ = std::fs::remove_file(&ct); let _ = std::fs::remove_file(&out);
        let e = verif_cmd(&dir, &["password", "encrypt", &p("small"), "-o", &ct, "--env-pass"], &[("KESTREL_PASSWORD", "the password"), ("KESTREL_NEW_PASSWORD", "another one")]);
        let d = verif_cmd(&dir, &["password", "decrypt", &ct, "-o", &out, "--env-pass"], &[("KESTREL_PASSWORD", "the password")]);
        if e.code != Some(0) || d.code != Some(0) || std::fs::read(&out).unwrap_or_default() != small {
            fail(&mut bad, &mut first, format!("password encrypt with KESTREL_PASSWORD and an unrelated KESTREL_NEW_PASSWORD exported, then decrypt under KESTREL_PASSWORD: encrypt exit {:?}, decrypt exit {:?} ({})", e.code, d.code, d.err.trim()));
        }
    }
    // ---- change-pass (C16, C07)
    {
        let ring = std::fs::read_to_string(&keyring).unwrap();
        let alice_sk = ring.lines().find(|l| l.starts_with("PrivateKey")).unwrap().split_once('=').unwrap().1.trim().to_string();
        let alice_pk = ring.lines().find(|l| l.starts_with("PublicKey")).unwrap().split_once('=').unwrap().1.trim().to_string();
        let salt_of = |k: &str| -> String { k.chars().skip(5).take(40).collect() };   // base64 chars covering bytes 4..34 (salt)
        let newkey = |o: &VRun| -> Option<String> { String::from_utf8_lossy(&o.out).lines().find(|l| l.starts_with("PrivateKey")).map(|l| l.split_once('=').unwrap().1.trim().to_string()) };
        // C15: the key unlocks under the password it was locked under and under no variant of it
        for (w, ok) in [("alice", true), ("alice\n", false), ("alice\r\n", false), ("alice ", false), (" alice", false), ("alicf", false)] {
            n += 1;
            let e = verif_cmd(&dir, &["key", "extract-pub", &alice_sk, "--env-pass"], &[("KESTREL_PASSWORD", w)]);
            if ok != (e.code == Some(0) && String::from_utf8_lossy(&e.out).contains(&alice_pk)) || (!ok && e.code != Some(1)) {
                fail(&mut bad, &mut first, format!("extract-pub of alice's locked key under password {:?}: exit {:?} (expected {})", w, e.code, if ok { "the public key" } else { "rejection" }));
            }
        }
        for newpw in ["alicenew", "alice", "alicenew\n", ""] {
            n += 1;
            let a = verif_cmd(&dir, &["key", "change-pass", &alice_sk, "--env-pass"], &[("KESTREL_PASSWORD", "alice"), ("KESTREL_NEW_PASSWORD", newpw)]);
            let b = verif_cmd(&dir, &["key", "change-pass", &alice_sk, "--env-pass"], &[("KESTREL_PASSWORD", "alice"), ("KESTREL_NEW_PASSWORD", newpw)]);
            let (ka, kb) = (newkey(&a), newkey(&b));
            if a.code != Some(0) || ka.is_none() || kb.is_none() { fail(&mut bad, &mut first, format!("change-pass alice -> {:?}: exit {:?}, no PrivateKey line ({})", newpw, a.code, a.err.trim())); continue; }
            let (ka, kb) = (ka.unwrap(), kb.unwrap());
            if salt_of(&ka) == salt_of(&alice_sk) || salt_of(&ka) == salt_of(&kb) { fail(&mut bad, &mut first, format!("change-pass alice -> {:?} does not draw a new salt (same salt as {})", newpw, if salt_of(&ka) == salt_of(&kb) { "a second identical invocation" } else { "the input key" })); }
            let e = verif_cmd(&dir, &["key", "extract-pub", &ka, "--env-pass"], &[("KESTREL_PASSWORD", newpw)]);
            if e.code != Some(0) || !String::from_utf8_lossy(&e.out).contains(&alice_pk) { fail(&mut bad, &mut first, format!("after change-pass alice -> {:?} the new locked key does not give alice's public key under the new password (exit {:?} {})", newpw, e.code, e.err.trim())); }
            if newpw != "alice" {
                let e = verif_cmd(&dir, &["key", "extract-pub", &ka, "--env-pass"], &[("KESTREL_PASSWORD", "alice")]);
                if e.code != Some(1) { fail(&mut bad, &mut first, format!("after change-pass alice -> {:?} the OLD password still unlocks the new key (exit {:?})", newpw, e.code)); }
            }
        }
    }
    let _ = std::fs::remove_dir_all(&dir);
    println!("VERIF_ORACLE verif_oracle_cli_flows cases={} disagreements={} first={:?}", n, bad, first);
    assert!(bad == 0, "the CLI misbehaves in {} of {} checks; first: {:?}", bad, n, first);
}


fn verif_cmd_in(dir: &PathBuf, args: &[&str], envs: &[(&str, &str)], input: &str) -> VRun {
    use std::io::Write as _;
    let mut c = Command::new(VERIF_EXE);
    c.args(args).current_dir(dir).stdin(Stdio::piped()).stdout(Stdio::piped()).stderr(Stdio::piped())
        .env_remove("KESTREL_PASSWORD").env_remove("KESTREL_NEW_PASSWORD").env_remove("KESTREL_KEYRING").env("HOME", dir);
    for (k, v) in envs { c.env(k, v); }
    match c.spawn() {
        Ok(mut ch) => {
            if let Some(mut si) = ch.stdin.take() { let _ = si.write_all(input.as_bytes()); }
            match ch.wait_with_output() {
                Ok(o) => VRun { code: o.status.code(), err: String::from_utf8_lossy(&o.stderr).to_string(), out: o.stdout },
                Err(e) => VRun { code: None, err: format!("wait failed: {}", e), out: Vec::new() },
            }
        }
        Err(e) => VRun { code: None, err: format!("spawn failed: {}", e), out: Vec::new() },
    }
}

#[test]
fn verif_oracle_keygen_append() {
    let mut dir = std::env::temp_dir();
    dir.push(format!("verif-keygen-{}", std::process::id()));
    let _ = std::fs::remove_dir_all(&dir);
    std::fs::create_dir_all(&dir).unwrap();
    let tests = PathBuf::from(env!("CARGO_MANIFEST_DIR")).join("tests");
    let shipped = std::fs::read(tests.join("keyring.txt")).unwrap_or_default();
    let p = |n: &str| dir.join(n).to_string_lossy().to_string();
    let mut n = 0u32; let mut bad = 0u32; let mut first: Option<String> = None;
    let mut fail = |bad: &mut u32, first: &mut Option<String>, what: String| { *bad += 1; if first.is_none() { *first = Some(what); } };
    std::fs::write(p("msg"), b"keygen oracle message").unwrap();
    // (label, initial contents or None for an absent file, does the file parse as a keyring afterwards)
    let starts: Vec<(&str, Option<Vec<u8>>, bool)> = vec![
        ("absent", None, true), ("empty", Some(Vec::new()), true), ("shipped", Some(shipped.clone()), !shipped.is_empty()),
        ("text", Some(b"# my keys\n".to_vec()), false),
        // a keyring whose last line has no line break (an editor stripped it): the new section must still start on its own line
        ("nonl", Some({ let mut b = shipped.clone(); while b.last() == Some(&b'\n') { b.pop(); } b }), !shipped.is_empty()),
        // the -o path is a symbolic link to the keyring (dotfiles layout): the link's target is the existing file
        ("symlink", Some(shipped.clone()), !shipped.is_empty()),
    ];
    for (label, init, parses) in starts.iter() {
        let f = p(&format!("kr-{}.txt", label));
        let _ = std::fs::remove_file(&f);
        if let Some(b) = init {
            if *label == "symlink" {
                let real = p("kr-symlink-target.txt");
                std::fs::write(&real, b).unwrap();
                #[cfg(unix)]
                { let _ = std::os::unix::fs::symlink(&real, &f); }
                if !std::path::Path::new(&f).exists() { std::fs::write(&f, b).unwrap(); }
            } else {
                std::fs::write(&f, b).unwrap();
            }
        }
        let mut names: Vec<(String, String)> = Vec::new();
        for k in 0..3usize {
            n += 1;
            let before: Option<Vec<u8>> = std::fs::read(&f).ok();
            let name = format!("gen{}{}", label, k); let pw = format!("pw-{}-{}", label, k);
            let r = verif_cmd_in(&dir, &["key", "generate", "-o", &f, "--env-pass"], &[("KESTREL_PASSWORD", &pw)], &format!("{}\n", name));
            if r.code != Some(0) { fail(&mut bad, &mut first, format!("key generate #{} into {} file: exit {:?} {}", k + 1, label, r.code, r.err)); break; }
            let after = std::fs::read(&f).unwrap_or_default();
            names.push((name.clone(), pw.clone()));
            match before {
                Some(b) => {
                    if after.len() <= b.len() || after[..b.len()] != b[..] {
                        fail(&mut bad, &mut first, format!("key generate #{} into {} file ({} bytes before): the earlier contents are not a prefix of the {} bytes now in the file", k + 1, label, b.len(), after.len()));
                        continue;
                    }
                    let added = String::from_utf8_lossy(&after[b.len()..]).to_string();
                    if !added.starts_with("\n[Key]\n") || added.matches("[Key]").count() != 1 || !added.contains(&format!("Name = {}\n", name)) {
                        fail(&mut bad, &mut first, format!("key generate #{} into {} file appended {:?}, not a blank line and one [Key] section named {}", k + 1, label, added, name));
                    }
                }
                None => {
                    let t = String::from_utf8_lossy(&after).to_string();
                    if !t.starts_with("[Key]\n") || t.matches("[Key]").count() != 1 {
                        fail(&mut bad, &mut first, format!("key generate into an absent file wrote {:?}", t));
                    }
                }
            }
            if !*parses { continue; }
            // every key generated so far is present and usable with its own password: newest -> each, each -> newest
            for (other, opw) in names.iter().take(1) {
                let mut pairs = vec![(&name, &pw, other, opw)];
                if other != &name { pairs.push((other, opw, &name, &pw)); pairs.push((&name, &pw, &name, &pw)); }
                for (from, fpw, to, tpw) in pairs {
                    n += 1;
                    let ct = p("kg.ct"); let pt = p("kg.pt"); let _ = std::fs::remove_file(&ct); let _ = std::fs::remove_file(&pt);
                    let e = verif_cmd(&dir, &["encrypt", &p("msg"), "-t", to, "-f", from, "-o", &ct, "-k", &f, "--env-pass"], &[("KESTREL_PASSWORD", fpw)]);
                    if e.code != Some(0) { fail(&mut bad, &mut first, format!("after {} generations into {} file: encrypt from {} to {} fails: exit {:?} {}", k + 1, label, from, to, e.code, e.err)); continue; }
                    let d = verif_cmd(&dir, &["decrypt", &ct, "-t", to, "-o", &pt, "-k", &f, "--env-pass"], &[("KESTREL_PASSWORD", tpw)]);
                    let got = std::fs::read(&pt).unwrap_or_default();
                    if d.code != Some(0) || got != b"keygen oracle message" || !(d.err.contains(from.as_str()) || String::from_utf8_lossy(&d.out).contains(from.as_str())) {
                        fail(&mut bad, &mut first, format!("after {} generations into {} file: decrypt by {} of a file from {}: exit {:?} {} {}", k + 1, label, to, from, d.code, d.err, String::from_utf8_lossy(&d.out)));
                    }
                }
            }
        }
    }
    let _ = std::fs::remove_dir_all(&dir);
    println!("VERIF_ORACLE verif_oracle_keygen_append cases={} disagreements={} first={:?}", n, bad, first);
    assert!(bad == 0, "key generation into an existing file misbehaves in {} of {} cases; first: {:?}", bad, n, first);
}
