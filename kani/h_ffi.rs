//@ append src/ffi/src/lib.rs
//@ harness ffi_scrypt_forwards bounded "password, salt and output lengths 0..=4 with symbolic contents; all n, r, p; callee replaced by a recorder" unwind=8 stubs=1
#[cfg(kani)]
#[allow(dead_code, static_mut_refs)]
mod verif_h_ffi {
    use super::*;
    static mut R_PASS: [u8; 4] = [0; 4];
    static mut R_SALT: [u8; 4] = [0; 4];
    static mut R_LENS: [usize; 3] = [0; 3];
    static mut R_NRP: [u32; 3] = [0; 3];
    fn rec_scrypt(password: &[u8], salt: &[u8], n: u32, r: u32, p: u32, dk_len: usize) -> Vec<u8> {
        unsafe {
            let mut i = 0;
            while i < 4 && i < password.len() { R_PASS[i] = password[i]; i += 1; }
            i = 0;
            while i < 4 && i < salt.len() { R_SALT[i] = salt[i]; i += 1; }
            R_LENS = [password.len(), salt.len(), dk_len];
            R_NRP = [n, r, p];
        }
        let mut v = Vec::new();
        let mut i = 0;
        while i < dk_len { v.push(0xa0u8 + i as u8); i += 1; }
        v
    }
    /// C18: the C export hands password / salt / n / r / p / dk_len to the Rust scrypt in those roles, writes
    /// exactly dk_len bytes (the callee's result) and nothing else.
    #[kani::proof]
    #[kani::unwind(8)]
    #[kani::stub(ktl_scrypt, rec_scrypt)]
    fn ffi_scrypt_forwards() {
        let pass: [u8; 4] = kani::any();
        let salt: [u8; 4] = kani::any();
        let pl: usize = kani::any(); let sl: usize = kani::any(); let dl: usize = kani::any();
        kani::assume(pl <= 4 && sl <= 4 && dl <= 4);
        let n: u32 = kani::any(); let r: u32 = kani::any(); let p: u32 = kani::any();
        // output buffer with guard bytes on both sides
        let mut buf = [0x5au8; 8];
        unsafe {
            scrypt(pass.as_ptr(), pl, salt.as_ptr(), sl, n, r, p, buf.as_mut_ptr().add(2), dl);
            assert!(R_LENS[0] == pl && R_LENS[1] == sl && R_LENS[2] == dl, "lengths not forwarded in their roles");
            assert!(R_NRP[0] == n && R_NRP[1] == r && R_NRP[2] == p, "n / r / p not forwarded in their roles");
            let i: usize = kani::any();
            kani::assume(i < 4);
            if i < pl { assert!(R_PASS[i] == pass[i], "password bytes not forwarded"); }
            if i < sl { assert!(R_SALT[i] == salt[i], "salt bytes not forwarded"); }
            if i < dl { assert!(buf[2 + i] == 0xa0u8 + i as u8, "derived key not copied to the caller's buffer"); }
            let g: usize = kani::any();
            kani::assume(g < 8);
            if g < 2 || g >= 2 + dl { assert!(buf[g] == 0x5a, "bytes outside the requested output range were modified"); }
        }
    }
}
