"""Run Verus on generated unit files and classify what it reports."""
import json, os, re, subprocess, time
from concurrent.futures import ThreadPoolExecutor
import extract
from rsyn import lex, match_close

VERIF_FAIL_MSGS = (
    'postcondition not satisfied', 'precondition not satisfied', 'assertion failed',
    'possible arithmetic underflow/overflow', 'possible division by zero',
    'invariant not satisfied at end of loop body', 'invariant not satisfied before loop',
    'loop invariant not satisfied', 'decreases not satisfied', 'could not prove termination',
    'possible bit shift underflow/overflow', 'unreachable', 'failed this postcondition',
    'cannot show invariant holds', 'possible truncation', 'loop ensures not satisfied',
    'constructed value may fail to meet its declared type invariant',
    'unable to prove post-condition of closure', 'unable to prove this pattern will successfully match',
    'bitvector assertion not satisfied', 'requires not satisfied', 'decreases not satisfied at continue',
    'cannot prove that there exists values that satisfy the condition of the', 'possible invariant collision',
)
RLIMIT_MSGS = ('Resource limit', 'rlimit', 'timed out', 'exceeded')

class Diag:
    def __init__(self, msg, spans, rendered):
        self.msg = msg; self.spans = spans; self.rendered = rendered
        self.kind = None; self.fn = None; self.tag = None; self.origin = None; self.offset = None
        self.clause = None; self.props = None; self.exit_text = None

def run_verus(path, extra=None, timeout=900, threads=None, multiple_errors=30):
    cmd = ['verus', path, '--output-json', '--time', '--multiple-errors', str(multiple_errors), '--triggers-mode', 'silent']
    if threads: cmd += ['--num-threads', str(threads)]
    if extra: cmd += extra
    cmd += ['--', '--error-format=json']
    t0 = time.time()
    try:
        p = subprocess.run(cmd, cwd=os.path.dirname(path), capture_output=True, text=True, timeout=timeout)
        rc = p.returncode; out = p.stdout; err = p.stderr
    except subprocess.TimeoutExpired as e:
        rc = -9; out = e.stdout or ''; err = (e.stderr or '') + '\nTIMEOUT'
        if isinstance(out, bytes): out = out.decode(errors='replace')
        if isinstance(err, bytes): err = err.decode(errors='replace')
    wall = time.time() - t0
    summary = None
    try:
        k = out.index('{')
        summary = json.loads(out[k:])
    except Exception:
        summary = None
    diags = []
    other = []
    for ln in err.split('\n'):
        ln = ln.strip()
        if not ln.startswith('{'):
            if ln: other.append(ln)
            continue
        try:
            d = json.loads(ln)
        except Exception:
            other.append(ln); continue
        if d.get('level') not in ('error',):
            continue
        if d.get('message', '').startswith('aborting due to'):
            continue
        diags.append(Diag(d.get('message', ''), d.get('spans', []), d.get('rendered', '')))
    return {'rc': rc, 'summary': summary, 'diags': diags, 'other': other, 'wall': wall, 'cmd': ' '.join(cmd)}

def _tag_props(text_bytes, off):
    """property tags `// @C01 C02` at the end of the line on which offset `off` lies,
    or on the last line of the clause (searched up to the next line ending with a tag within the clause)."""
    s = text_bytes.rfind(b'\n', 0, off) + 1
    e = text_bytes.find(b'\n', off)
    if e < 0: e = len(text_bytes)
    line = text_bytes[s:e].decode(errors='replace')
    m = re.search(r'//\s*@((?:C\d+\s*)+)$', line.strip())
    if m: return m.group(1).split()
    return None

def classify(unit, diags, file_name):
    """Attach kind/fn/tag to each diagnostic.  Returns (verification_failures, frontend_errors, rlimit_hits)."""
    tb = unit.text.encode()
    vf = []; fe = []; rl = []
    for d in diags:
        msg = d.msg
        if any(m in msg for m in RLIMIT_MSGS):
            rl.append(d); continue
        is_vf = any(msg.startswith(m) or m in msg for m in VERIF_FAIL_MSGS)
        mine = [s for s in d.spans if os.path.basename(s.get('file_name', '')) == os.path.basename(file_name)]
        if not is_vf or not mine:
            fe.append(d); continue
        prim = [s for s in mine if s.get('is_primary')] or mine
        p = prim[0]
        # prefer the span that lies in injected contract text as "the clause"; the code span is the exit / site
        tagged = []
        for sp in mine:
            t2, o2 = extract.classify_offset(unit, sp['byte_start'])
            tagged.append((sp, t2, o2))
        spec_spans = [x for x in tagged if x[1].split('|')[0] in ('SPEC', 'LOOPSPEC') or x[1].startswith('PROP')]
        code_spans = [x for x in tagged if x[1].split('|')[0] == 'CODE']
        if spec_spans and not (msg.startswith('precondition') and False):
            p, tag, origin = spec_spans[0]
        else:
            tag, origin = extract.classify_offset(unit, p['byte_start'])
        # failures whose only location is a hint (assert / lemma-call precondition inside proof text)
        d.offset = p['byte_start']
        d.tag = tag.split('|')[0]
        d.fn = tag.split('|')[1] if '|' in tag else None
        d.origin = origin
        d.kind = msg
        d.clause = tb[p['byte_start']:p['byte_end']].decode(errors='replace')
        for sp, t2, o2 in tagged:
            if sp is p: continue
            if d.fn is None and '|' in t2: d.fn = t2.split('|')[1]
            if t2.split('|')[0] == 'CODE' or d.exit_text is None:
                d.exit_text = tb[sp['byte_start']:sp['byte_end']].decode(errors='replace')
        # a precondition failure of a lemma call inside a hint: primary span is the call (HINT)
        # property tags: look at the end of each line of the clause span
        props = None
        for ln_off in [p['byte_start']] + [m.start() + p['byte_start'] + 1 for m in re.finditer(b'\n', tb[p['byte_start']:p['byte_end']])] + [p['byte_end']]:
            props = _tag_props(tb, min(ln_off, len(tb) - 1))
            if props: break
        d.props = props
        vf.append(d)
    return vf, fe, rl

def blank_hint_statement(text, off):
    """Replace the statement that contains byte offset `off` (an `assert(..);`, `assert(..) by {..}`,
    or a lemma call `name(..);`) by spaces, keeping every byte offset unchanged.  Returns new text or None."""
    b = text.encode()
    # work on str with ascii assumption for offsets: generated files are ascii except maybe comments
    if len(b) != len(text):
        return None
    toks = [t for t in lex(text) if t.kind != 'comment']
    # find the token at/after off
    idx = None
    for i, t in enumerate(toks):
        if t.start <= off < t.end:
            idx = i; break
        if t.start > off:
            return None      # nothing at this offset (already blanked)
    if idx is None: return None
    # walk left to statement start (after ';', '{', '}')
    i = idx
    depth = 0
    while i > 0:
        t = toks[i - 1]
        if t.kind == 'punct':
            if t.text in (')', ']'): depth += 1
            elif t.text in ('(', '['):
                if depth == 0: pass
                depth = max(0, depth - 1)
            elif t.text in (';', '{', '}') and depth == 0:
                break
        i -= 1
    start = toks[i].start
    # walk right to the end of the statement: `assert(..) by {..}` / `assert forall .. by {..}` end with their
    # block; everything else (let, lemma calls, assignments, `if` used as an expression) ends at the ';' at depth 0
    j = i
    first = toks[i].text
    saw_by = False
    while j < len(toks):
        t = toks[j]
        if t.kind == 'id' and t.text == 'by' and first == 'assert': saw_by = True
        if t.kind == 'punct' and t.text in ('(', '[', '{'):
            j = match_close(toks, j)
            if t.text == '{' and saw_by:
                if j + 1 < len(toks) and toks[j + 1].text == ';': j += 1
                break
        elif t.text == ';':
            break
        j += 1
    end = toks[min(j, len(toks) - 1)].end
    seg = text[start:end]
    if '\n' in seg:
        blank = ''.join(c if c == '\n' else ' ' for c in seg)
    else:
        blank = ' ' * len(seg)
    return text[:start] + blank + text[end:]

ASSUME_PAT = re.compile(r'\b(admit\s*\(|assume\s*\(|external_body|assume_specification|uninterp|external_fn_specification|external\b)')

def scan_assumptions(unit):
    """List every unchecked-assumption marker in the generated text with the declaration it sits on."""
    found = []
    text = unit.text
    lines = text.split('\n')
    for n, ln in enumerate(lines):
        code = ln.split('//')[0]
        for m in ASSUME_PAT.finditer(code):
            # name: next `fn NAME` / `struct NAME` within 3 lines
            name = None
            for k in range(n, min(n + 4, len(lines))):
                mm = re.search(r'\b(fn|struct|proof fn|spec fn)\s+([A-Za-z_0-9]+)', lines[k])
                if mm: name = mm.group(2); break
            if name is None:
                for k in range(n, max(n - 6, -1), -1):
                    mm = re.search(r'\b(fn)\s+([A-Za-z_0-9]+)', lines[k])
                    if mm: name = mm.group(2); break
            found.append((m.group(1).rstrip('( '), name or '?', n + 1))
    return found

def fn_breakdown(summary):
    res = []
    if not summary: return res
    try:
        for mod in summary['times-ms']['smt']['smt-run-module-times']:
            for f in mod.get('function-breakdown', []):
                res.append({'function': f.get('function'), 'mode': f.get('mode:') or f.get('mode'),
                            'time_us': f.get('time-micros'), 'rlimit': f.get('rlimit'), 'success': f.get('success')})
    except Exception:
        pass
    return res

def blank_clause(text, off, seg_start, seg_end):
    """blank the comma-separated contract clause (inside the injected spec text [seg_start, seg_end)) that
    contains byte offset `off`, keeping all offsets.  Returns new text or None."""
    if len(text.encode()) != len(text): return None
    seg = text[seg_start:seg_end]
    toks = [t for t in lex(seg) if t.kind != 'comment']
    # clause boundaries: keywords and top-level commas
    KW = ('invariant', 'invariant_except_break', 'ensures', 'requires', 'decreases')
    bounds = []   # (start_tok_index) of each clause
    depth = 0
    start = None
    clauses = []
    for i, t in enumerate(toks):
        if t.kind == 'id' and t.text in KW and depth == 0:
            if start is not None: clauses.append((start, i))
            start = i + 1; continue
        if t.kind == 'punct' and t.text in ('(', '[', '{'): depth += 1
        elif t.kind == 'punct' and t.text in (')', ']', '}'): depth -= 1
        elif t.text == ',' and depth == 0:
            if start is not None: clauses.append((start, i + 1))
            start = i + 1
    if start is not None and start < len(toks): clauses.append((start, len(toks)))
    rel = off - seg_start
    for (a, b) in clauses:
        if a >= b: continue
        s0 = toks[a].start; e0 = toks[b - 1].end
        if s0 <= rel < e0 or (s0 <= rel <= e0):
            # do not blank a `decreases` clause (the loop needs one): report failure instead
            k = a - 1
            while k >= 0 and not (toks[k].kind == 'id' and toks[k].text in KW): k -= 1
            if k >= 0 and toks[k].text == 'decreases': return None
            piece = seg[s0:e0]
            blank = ''.join(c if c == '\n' else ' ' for c in piece)
            return text[:seg_start + s0] + blank + text[seg_start + e0:]
    return None
