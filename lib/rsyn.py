"""Minimal Rust-aware lexer and item locator used by the extractor.

It is not a parser: it knows comments, string/char/lifetime literals, raw
strings and bracket nesting, which is what is needed to copy an item verbatim
and to find places inside a function body (loops, statement starts, matching
parentheses) without ever matching across a string or a comment.
"""
import re

class LexError(Exception):
    pass

IDENT_RE = re.compile(r'[A-Za-z_][A-Za-z0-9_]*')
NUM_RE = re.compile(r'[0-9][0-9A-Za-z_]*(\.[0-9][0-9A-Za-z_]*)?')

class Tok:
    __slots__ = ('kind', 'text', 'start', 'end')
    def __init__(self, kind, text, start, end):
        self.kind = kind; self.text = text; self.start = start; self.end = end
    def __repr__(self):
        return 'Tok(%s,%r,%d)' % (self.kind, self.text, self.start)

def lex(src):
    """Return list of tokens (comments and whitespace dropped). kinds:
    id, num, str, char, life, punct"""
    toks = []
    i = 0; n = len(src)
    while i < n:
        c = src[i]
        if c in ' \t\r\n':
            i += 1; continue
        if src.startswith('//', i):
            j = src.find('\n', i)
            if j < 0: j = n
            toks.append(Tok('comment', src[i:j], i, j))
            i = j; continue
        if src.startswith('/*', i):
            depth = 1; j = i + 2
            while j < n and depth > 0:
                if src.startswith('/*', j): depth += 1; j += 2
                elif src.startswith('*/', j): depth -= 1; j += 2
                else: j += 1
            toks.append(Tok('comment', src[i:j], i, j))
            i = j; continue
        # raw strings r"..", r#".."#, br"..."
        m = re.match(r'b?r(#*)"', src[i:i+40])
        if m:
            hashes = m.group(1)
            endpat = '"' + hashes
            j = src.find(endpat, i + m.end())
            if j < 0: raise LexError('unterminated raw string at %d' % i)
            j += len(endpat)
            toks.append(Tok('str', src[i:j], i, j)); i = j; continue
        if c == '"' or (c == 'b' and i + 1 < n and src[i+1] == '"'):
            j = i + (2 if c == 'b' else 1)
            while j < n and src[j] != '"':
                if src[j] == '\\': j += 1
                j += 1
            if j >= n: raise LexError('unterminated string at %d' % i)
            j += 1
            toks.append(Tok('str', src[i:j], i, j)); i = j; continue
        if c == "'" or (c == 'b' and i + 1 < n and src[i+1] == "'"):
            k = i + (1 if c == 'b' else 0)
            # char literal or lifetime
            if k + 1 < n and src[k+1] == '\\':
                j = src.find("'", k + 3)
                # handle '\''
                if src[k+2] == "'":
                    j = k + 3
                if j < 0: raise LexError('bad char at %d' % i)
                toks.append(Tok('char', src[i:j+1], i, j+1)); i = j + 1; continue
            if k + 2 < n and src[k+2] == "'":
                toks.append(Tok('char', src[i:k+3], i, k+3)); i = k + 3; continue
            # multi-byte char literal e.g. 'é' : find closing quote within 6 chars
            m2 = re.match(r"'[^'\\\n]'", src[k:k+8])
            if m2:
                toks.append(Tok('char', src[i:k+m2.end()], i, k+m2.end())); i = k + m2.end(); continue
            m3 = IDENT_RE.match(src, k + 1)
            if m3:
                toks.append(Tok('life', src[i:m3.end()], i, m3.end())); i = m3.end(); continue
            raise LexError('bad quote at %d' % i)
        m = IDENT_RE.match(src, i)
        if m:
            toks.append(Tok('id', m.group(0), i, m.end())); i = m.end(); continue
        m = NUM_RE.match(src, i)
        if m:
            toks.append(Tok('num', m.group(0), i, m.end())); i = m.end(); continue
        # multi-char punctuation that matters for us
        for p in ('->', '=>', '::', '..=', '..', '&&', '||', '==', '!=', '<=', '>=', '+=', '-=', '*=', '/=', '^=', '|=', '&=', '<<', '>>'):
            if src.startswith(p, i):
                toks.append(Tok('punct', p, i, i + len(p))); i += len(p); break
        else:
            toks.append(Tok('punct', c, i, i + 1)); i += 1
    return toks

def code_toks(toks):
    return [t for t in toks if t.kind != 'comment']

OPEN = {'(': ')', '[': ']', '{': '}'}
CLOSE = {')': '(', ']': '[', '}': '{'}

def match_close(toks, i):
    """toks[i] is an opening bracket; return index of its matching close."""
    assert toks[i].text in OPEN, toks[i]
    depth = 0
    for j in range(i, len(toks)):
        t = toks[j]
        if t.kind != 'punct': continue
        if t.text in OPEN: depth += 1
        elif t.text in CLOSE:
            depth -= 1
            if depth == 0: return j
    raise LexError('unbalanced bracket at %d' % toks[i].start)

def strip_comments(src):
    """Replace comments by whitespace of equal length?  No: drop them, keep
    newlines so that line numbers inside the item are preserved."""
    out = []
    last = 0
    for t in lex(src):
        if t.kind == 'comment':
            out.append(src[last:t.start])
            out.append('\n' * src[t.start:t.end].count('\n'))
            last = t.end
    out.append(src[last:])
    return ''.join(out)

class Item:
    def __init__(self, kind, name, start, end, body_open=None, header_start=None):
        self.kind = kind; self.name = name
        self.start = start      # byte offset of first token of the item (incl. attributes / pub)
        self.end = end          # one past last byte
        self.body_open = body_open  # offset of '{' that opens the body (fn/impl/mod/struct/enum) or None
        self.header_start = header_start  # offset of the keyword-introduced header (after attributes)

ITEM_KW = ('fn', 'struct', 'enum', 'impl', 'const', 'static', 'mod', 'type', 'use', 'trait')

def _skip_generics(toks, k):
    """toks[k] is '<' : return the index after the matching '>' (handles ->, >>)."""
    depth = 0
    while k < len(toks):
        t = toks[k]
        if t.kind == 'punct':
            if t.text == '<': depth += 1
            elif t.text == '>': depth -= 1
            elif t.text == '>>': depth -= 2
            elif t.text in OPEN:
                k = match_close(toks, k)
            if depth <= 0: return k + 1
        k += 1
    raise LexError('unbalanced generics')

def items_in(src, lo=0, hi=None):
    """Yield the items that are direct children of the region src[lo:hi]
    (the crate file, or the inside of an impl/mod block)."""
    if hi is None: hi = len(src)
    toks = [t for t in lex(src[lo:hi]) if t.kind != 'comment']
    for t in toks:
        t.start += lo; t.end += lo
    i = 0; n = len(toks)
    res = []
    while i < n:
        start_i = i
        # attributes
        while i < n and toks[i].text == '#':
            j = i + 1
            if j < n and toks[j].text == '!': j += 1
            if j < n and toks[j].text == '[':
                i = match_close(toks, j) + 1
            else:
                break
        hdr_i = i
        # visibility / qualifiers
        while i < n and toks[i].kind == 'id' and toks[i].text in ('pub', 'unsafe', 'async', 'extern', 'default'):
            i += 1
            if i < n and toks[i].text == '(' and toks[i-1].text == 'pub':
                i = match_close(toks, i) + 1
            if i < n and toks[i].kind == 'str' and toks[i-1].text == 'extern':
                i += 1
        if i < n and toks[i].kind == 'id' and toks[i].text == 'const' and i + 1 < n and toks[i+1].text == 'fn':
            i += 1
        if i >= n: break
        kw = toks[i]
        if kw.kind != 'id' or kw.text not in ITEM_KW:
            # macro invocation or stray token: skip to next ';' or balanced block
            if toks[i].kind == 'punct' and toks[i].text in OPEN:
                i = match_close(toks, i) + 1
            else:
                i += 1
            continue
        kind = kw.text
        name = None
        k = i + 1
        if kind == 'impl':
            # name = normalised header text between 'impl' and '{'
            j = k
            while j < n and not (toks[j].text == '{'):
                if toks[j].text == '<' : j = _skip_generics(toks, j); continue
                if toks[j].text in ('(', '['): j = match_close(toks, j) + 1; continue
                j += 1
            name = ' '.join(t.text for t in toks[k:j])
            name = re.sub(r'\s*::\s*', '::', name)
            name = re.sub(r'\s*<\s*', '<', name); name = re.sub(r'\s*>\s*', '> ', name).strip()
            name = re.sub(r'&\s+', '&', name)
            name = re.sub(r'\[\s+', '[', name); name = re.sub(r'\s+\]', ']', name)
            close = match_close(toks, j)
            res.append(Item('impl', name, toks[start_i].start, toks[close].end, toks[j].start, toks[hdr_i].start))
            i = close + 1; continue
        if k < n and toks[k].kind == 'id':
            name = toks[k].text
        # find end: first ';' or '{...}' at depth 0
        j = k
        body_open = None
        while j < n:
            t = toks[j]
            if t.kind == 'punct':
                if t.text == ';':
                    end = t.end; break
                if t.text == '{':
                    body_open = t.start
                    close = match_close(toks, j)
                    end = toks[close].end; j = close
                    # struct Foo {..} / fn / enum / mod end here; `const X: T = Foo {..};` continues
                    if kind in ('const', 'static', 'type', 'use'):
                        j += 1; body_open = None; continue
                    break
                if t.text in ('(', '['):
                    j = match_close(toks, j)
                elif t.text == '<' and kind in ('fn', 'struct', 'enum', 'type', 'trait'):
                    j = _skip_generics(toks, j) - 1
            j += 1
        else:
            raise LexError('unterminated item %s %s' % (kind, name))
        # tuple struct `struct A(String);` ends with ';' – handled by ';'
        res.append(Item(kind, name, toks[start_i].start, end, body_open, toks[hdr_i].start))
        i = j + 1
    return res

def find_item(src, kind, name, within=None):
    """Locate an item by kind+name.  `within` is an impl header (normalised)
    whose block is searched instead of the file top level.  Returns (Item, n_matches)."""
    lo, hi = 0, len(src)
    if within is not None:
        cands = [it for it in items_in(src) if it.kind == 'impl' and it.name == within]
        if len(cands) != 1:
            return None, len(cands)
        lo = cands[0].body_open + 1; hi = cands[0].end - 1
    cands = [it for it in items_in(src, lo, hi) if it.kind == kind and it.name == name]
    if len(cands) != 1:
        # also search inside non-test modules? not needed here
        return None, len(cands)
    return cands[0], 1
