"""Mechanical extraction of real kestrel items into a Verus unit file.

A unit template (units/*.vt) is Verus text with directive lines that start
with `//@`.  Everything that is not a directive is copied through.  Directives:

  //@ include <path relative to /verif>
  //@ const  <repo file> <NAME>                 verbatim copy of a const item
  //@ item   <repo file> <kind> <name> [drop-derive]   verbatim copy of a struct/enum/type item
  //@ impl   <repo file> "<impl header>" [as "<new header>"]
  //@ endimpl
  //@ fn     <repo file> <name> [in "<impl header>"] [opts...]
  //@   ret <name>                   name of the return value (A1)
  //@   spec                         following lines: requires/ensures/... (A1)
  //@   loop <n> [iter <name>]       following lines: loop spec for the n-th loop (A2, A4)
  //@   before "<anchor>" [#k]       following lines: ghost/proof text inserted before the k-th
  //@                                statement that starts with <anchor> (A3, class B hint)
  //@   prop <id> before "<anchor>" [#k]   same, but a named class-A property assertion
  //@   atend                        following lines inserted before the closing brace
  //@   rw <rule> [args]             enable a rewrite rule instance for this fn
  //@ endfn

Rewrite rules are implemented in RULES below; every firing is recorded.
Anything the extractor cannot find or apply raises ExtractError (=> exit 2).
"""
import hashlib, os, re, shlex
from rsyn import lex, match_close, items_in, find_item, LexError, OPEN, CLOSE

class ExtractError(Exception):
    pass

# ---------------------------------------------------------------- helpers

def _tok_code(src):
    return [t for t in lex(src) if t.kind != 'comment']

def drop_comments(src):
    out = []; last = 0
    for t in lex(src):
        if t.kind == 'comment':
            out.append(src[last:t.start])
            out.append('\n' * src[t.start:t.end].count('\n'))
            last = t.end
    out.append(src[last:])
    return ''.join(out)

ATTR_DROP = re.compile(r'^\s*#\[(allow|rustfmt::skip|non_exhaustive|no_mangle|inline|must_use|doc)\b')

def strip_attrs(text, fired, keep_derive=True):
    """Drop attributes that have no run-time meaning (listed in DESIGN 3.2)."""
    toks = _tok_code(text)
    cut = []
    i = 0
    while i < len(toks) and toks[i].text == '#':
        j = i + 1
        if toks[j].text != '[':
            break
        c = match_close(toks, j)
        a = text[toks[i].start:toks[c].end]
        name = toks[j+1].text if toks[j+1].kind == 'id' else ''
        if name in ('allow', 'rustfmt', 'non_exhaustive', 'no_mangle', 'inline', 'must_use', 'doc'):
            cut.append((toks[i].start, toks[c].end)); fired.append('drop-attr:' + re.sub(r'\s+', '', a))
        elif name == 'derive':
            if not keep_derive:
                cut.append((toks[i].start, toks[c].end)); fired.append('drop-derive:' + re.sub(r'\s+', '', a))
        else:
            raise ExtractError('attribute not covered by a rule: ' + a)
        i = c + 1
    for s, e in reversed(cut):
        text = text[:s] + text[e:]
    return text.lstrip('\n')

# ---------------------------------------------------------------- rewrite rules

def _sub_tokens(text, fn):
    """Apply fn(toks, i) -> (start_off, end_off, replacement) | None over code
    tokens left to right, never touching strings/comments."""
    toks = _tok_code(text)
    edits = []
    i = 0
    while i < len(toks):
        r = fn(toks, i, text)
        if r:
            edits.append(r[:3]); i = r[3]
        else:
            i += 1
    for s, e, rep in reversed(edits):
        text = text[:s] + rep + text[e:]
    return text, len(edits)

def rule_R1(text, args, fired):
    """std::io paths -> vio::; generic bounds Read/Write -> VRead/VWrite."""
    def f(toks, i, src):
        t = toks[i]
        if t.text == 'std' and i + 3 < len(toks) and toks[i+1].text == '::' and toks[i+2].text == 'io' and toks[i+3].text == '::':
            return (t.start, toks[i+3].end, 'vio::', i + 4)
        if t.text == 'std' and i + 3 < len(toks) and toks[i+1].text == '::' and toks[i+2].text == 'env' and toks[i+3].text == '::':
            return (t.start, toks[i+3].end, 'venv::', i + 4)
        if t.kind == 'id' and t.text in ('Read', 'Write') and i > 0 and toks[i-1].text in (':', '+') :
            return (t.start, t.end, 'V' + t.text, i + 1)
        if t.kind == 'id' and t.text in ('Read', 'Write') and i > 0 and toks[i-1].text == 'dyn':
            return (t.start, t.end, 'V' + t.text, i + 1)
        return None
    text, n = _sub_tokens(text, f)
    if n: fired.append('R1x%d' % n)
    return text

def rule_R2(text, args, fired):
    """x.to_be_bytes() -> x.v_to_be_bytes(); u32::from_be_bytes(a) -> u32_from_be_bytes(a)."""
    def f(toks, i, src):
        t = toks[i]
        if t.kind == 'id' and t.text in ('to_be_bytes', 'to_le_bytes') and i > 0 and toks[i-1].text == '.' and toks[i+1].text == '(':
            return (t.start, t.end, 'v_' + t.text, i + 1)
        if t.kind == 'id' and t.text in ('u32', 'u64') and i + 2 < len(toks) and toks[i+1].text == '::' and toks[i+2].text in ('from_be_bytes', 'from_le_bytes'):
            return (t.start, toks[i+2].end, '%s_%s' % (t.text, toks[i+2].text), i + 3)
        return None
    text, n = _sub_tokens(text, f)
    if n: fired.append('R2x%d' % n)
    return text

def _expr_start(toks, i):
    """toks[i] is the '.' (or '[') that follows a postfix chain; walk left to the
    start of the receiver expression: identifiers, paths, fields, calls, indexes."""
    j = i - 1
    while j >= 0:
        t = toks[j]
        if t.kind == 'punct' and t.text in (')', ']'):
            # find matching open
            depth = 0; k = j
            while k >= 0:
                if toks[k].kind == 'punct' and toks[k].text in CLOSE: depth += 1
                elif toks[k].kind == 'punct' and toks[k].text in OPEN:
                    depth -= 1
                    if depth == 0: break
                k -= 1
            j = k - 1
            # a call/index is preceded by its callee expression
            if j >= 0 and (toks[j].kind in ('id', 'num') or toks[j].text in (')', ']', '>')):
                continue
            return k
        if t.kind in ('id', 'num', 'str'):
            if j - 1 >= 0 and toks[j-1].text in ('.', '::'):
                j -= 2; continue
            return j
        return j + 1
    return 0

def rule_R3(text, args, fired):
    """E.try_into().unwrap() / .expect(..)  ->  v_try_into(E) style wrapper call
    handled generically: `.try_into().unwrap()` -> `.v_try_into_unwrap()` and
    `.try_into().expect("..")` -> `.v_try_into_unwrap()`; the prelude trait
    VTryIntoUnwrap carries the `unwrap` obligation as its precondition."""
    def f(toks, i, src):
        t = toks[i]
        if t.kind == 'id' and t.text == 'try_into' and toks[i-1].text == '.' and toks[i+1].text == '(' and toks[i+2].text == ')' \
           and toks[i+3].text == '.' and toks[i+4].text in ('unwrap', 'expect') and toks[i+5].text == '(':
            c = match_close(toks, i + 5)
            return (t.start, toks[c].end, 'v_try_into_unwrap()', c + 1)
        return None
    text, n = _sub_tokens(text, f)
    if n: fired.append('R3x%d' % n)
    return text

def rule_R4(text, args, fired):
    """v[r]... used mutably on a Vec named in args -> v.as_mut_slice()[r]...
    fires on `NAME[..].copy_from_slice(` and on `&mut NAME[..]`."""
    names = set(args)
    def f(toks, i, src):
        t = toks[i]
        if t.kind == 'id' and t.text in names and i + 1 < len(toks) and toks[i+1].text == '[' and (i == 0 or toks[i-1].text not in ('.', '::')):
            c = match_close(toks, i + 1)
            mut_ctx = (i >= 2 and toks[i-1].text == 'mut' and toks[i-2].text == '&')
            cfs = (c + 2 < len(toks) and toks[c+1].text == '.' and toks[c+2].text == 'copy_from_slice')
            if mut_ctx or cfs:
                return (t.start, t.end, t.text + '.as_mut_slice()', i + 1)
        return None
    text, n = _sub_tokens(text, f)
    if names and n == 0:
        raise ExtractError('R4 named %s but no site matched' % sorted(names))
    if n: fired.append('R4x%d' % n)
    return text

def rule_R5(text, args, fired, identity=False):
    """`CALL(..)?` (anchor = start text of CALL) -> explicit match: the language-defined desugaring of `?`.
    R5 : error types differ  -> Err(e) => return Err(From::from(e))
    R5i: error types equal   -> Err(e) => return Err(e)     (From<T> for T is the identity)
    optional second argument: ghost text placed in the Err arm before the return."""
    anchor = args[0]
    ghost = args[1] if len(args) > 1 else ''
    toks = _tok_code(text)
    atoks = [t.text for t in _tok_code(anchor)]
    hits = []
    for i in range(len(toks) - len(atoks) + 1):
        if [t.text for t in toks[i:i+len(atoks)]] == atoks:
            hits.append(i)
    if len(hits) != 1:
        raise ExtractError('R5 anchor %r matched %d times' % (anchor, len(hits)))
    i = hits[0]
    j = i
    while j < len(toks):
        if toks[j].text in OPEN: j = match_close(toks, j) + 1; continue
        if toks[j].text == '?': break
        if toks[j].text in (';', ',') or toks[j].text in CLOSE:
            raise ExtractError('R5 anchor %r: no `?` found' % anchor)
        j += 1
    if j >= len(toks):
        raise ExtractError('R5 anchor %r: no `?` found' % anchor)
    s, e = toks[i].start, toks[j].end
    expr = text[s:toks[j].start]
    conv = 'v_err' if identity else 'From::from(v_err)'
    g = (' proof { %s } ' % ghost) if ghost else ' '
    rep = 'match %s { Ok(v_ok) => v_ok, Err(v_err) => {%sreturn Err(%s) } }' % (expr, g, conv)
    text = text[:s] + rep + text[e:]
    fired.append(('R5i:' if identity else 'R5:') + anchor)
    return text

def rule_R5i(text, args, fired):
    return rule_R5(text, args, fired, identity=True)

def rule_R5all(text, args, fired):
    """every `EXPR?` of the function body -> the explicit match of rule R5i (error types equal), each Err arm carrying the
    same ghost text (args[0]).  Anchor-free: the `?` sites are found, not named, so reordering or re-spelling the
    statements does not lose them.  `?` inside closures is left alone."""
    ghost = args[0] if args else ''
    n = 0
    while True:
        toks = _tok_code(text)
        bo = _find_body_open(toks)
        bc = match_close(toks, bo)
        j = None
        k = bo + 1
        while k < bc:
            t = toks[k]
            if t.text == '|' and toks[k - 1].text in ('(', ',', '=') :
                # a closure: skip its parameter list and its body expression / block
                m = k + 1
                while m < bc and toks[m].text != '|': m += 1
                m += 1
                if m < bc and toks[m].text == '{': k = match_close(toks, m) + 1
                else:
                    depth = 0
                    while m < bc and not (depth == 0 and toks[m].text in (',', ')', ';')):
                        if toks[m].text in OPEN: depth += 1
                        elif toks[m].text in CLOSE: depth -= 1
                        m += 1
                    k = m
                continue
            if t.text == '?' and t.kind == 'punct':
                j = k; break
            k += 1
        if j is None: break
        i = _expr_start(toks, j)
        s0, e0 = toks[i].start, toks[j].end
        expr = text[s0:toks[j].start]
        g = (' proof { %s } ' % ghost) if ghost else ' '
        text = text[:s0] + 'match %s { Ok(v_ok) => v_ok, Err(v_err) => {%sreturn Err(v_err) } }' % (expr, g) + text[e0:]
        n += 1
        if n > 200: raise ExtractError('R5all: runaway')
    if n == 0:
        raise ExtractError('R5all: no `?` in the function')
    fired.append('R5all:x%d' % n)
    return text

def rule_R15(text, args, fired):
    """let-introduction: `let P = CALL(..).rest;` -> `let NAME = CALL(..); let P = NAME.rest;`
    args = [anchor (start text of CALL), NAME].  CALL(..) is the first thing evaluated in the
    initialiser either way; its value is consumed by `.rest`, so nothing is dropped later than before."""
    anchor, name = args[0], args[1]
    toks = _tok_code(text)
    atoks = [t.text for t in _tok_code(anchor)]
    hits = [i for i in range(len(toks) - len(atoks) + 1) if [t.text for t in toks[i:i+len(atoks)]] == atoks]
    if len(hits) != 1:
        raise ExtractError('R15 anchor %r matched %d times' % (anchor, len(hits)))
    i = hits[0]
    if toks[i-1].text != '=':
        raise ExtractError('R15 anchor %r is not the start of a let initialiser' % anchor)
    # find the `let` that owns this '='
    k = i - 1
    while k >= 0 and toks[k].text != 'let':
        if toks[k].text in (';', '{', '}'): raise ExtractError('R15: no let before %r' % anchor)
        k -= 1
    # end of CALL: skip path/idents then the argument list
    j = i
    while j < len(toks) and toks[j].text != '(':
        j += 1
    c = match_close(toks, j)
    call = text[toks[i].start:toks[c].end]
    text = text[:toks[k].start] + 'let %s = %s; ' % (name, call) + text[toks[k].start:toks[i].start] + name + text[toks[c].end:]
    fired.append('R15:%s=%s' % (name, anchor))
    return text

def rule_A6(text, args, fired):
    """annotation only: give a closure a Verus contract.
    `|p| BODY` (anchor = closure text start) -> `|p| -> (r_c: T) ensures ENS { BODY }`; args = [anchor, T, ENS]"""
    anchor, rty, ens = args
    toks = _tok_code(text)
    atoks = [t.text for t in _tok_code(anchor)]
    hits = [i for i in range(len(toks) - len(atoks) + 1) if [t.text for t in toks[i:i+len(atoks)]] == atoks]
    if len(hits) != 1:
        raise ExtractError('A6 anchor %r matched %d times' % (anchor, len(hits)))
    i = hits[0]
    if toks[i].text != '|': raise ExtractError('A6 anchor must start at the closure bar')
    j = i + 1
    while toks[j].text != '|': j += 1
    # enclosing call's '(' : scan left for unmatched '('
    depth = 0; k = i - 1
    while k >= 0:
        if toks[k].text in CLOSE: depth += 1
        elif toks[k].text in OPEN:
            if depth == 0: break
            depth -= 1
        k -= 1
    c = match_close(toks, k)
    body = text[toks[j].end:toks[c].start]
    text = text[:toks[j].end] + ' -> (r_c: %s) ensures %s { %s }' % (rty, ens, body.strip()) + text[toks[c].start:]
    fired.append('A6:' + anchor)
    return text

def rule_R20(text, args, fired):
    """`RECV.iter().find(|&ID| BODY)` over a Vec-valued RECV  ->
         { let r_find = v_iter_find(&RECV, |ID: &T| -> (r_c: bool) ensures r_c == (PRED) { BODY }, Ghost(|ID: T| PRED)); GHOST r_find }
    args = [T, PRED (with $x for the closure parameter), optional GHOST proof text].  BODY is the repository's own closure
    body; v_iter_find (prelude/cli.rs) carries the assumed meaning of slice::Iter::find: the first element the closure
    accepts, None if it accepts none."""
    ty, pred = args[0], args[1]
    ghost = args[2] if len(args) > 2 else ''
    toks = _tok_code(text)
    pat = ['.', 'iter', '(', ')', '.', 'find', '(', '|']
    hits = [i for i in range(len(toks) - len(pat)) if [t.text for t in toks[i:i+len(pat)]] == pat]
    if len(hits) != 1:
        raise ExtractError('R20: `.iter().find(|x| ..)` matched %d times' % len(hits))
    i = hits[0]
    q = i + len(pat)
    if toks[q].text == '&': q += 1      # `|&x|` and `|x|` both name one element; the body only auto-derefs it
    idt = toks[q]
    if idt.kind != 'id' or toks[q + 1].text != '|':
        raise ExtractError('R20: closure parameter is not `|ident|` or `|&ident|`')
    op = i + 6                       # the '(' of find(
    cl = match_close(toks, op)
    body = text[toks[q + 1].end:toks[cl].start].strip()
    rs = _expr_start(toks, i)
    recv = text[toks[rs].start:toks[i].start]
    pr = pred.replace('$x', idt.text)
    rep = '{ let r_find = v_iter_find(&%s, |%s: &%s| -> (r_c: bool) ensures r_c == (%s) { %s }, Ghost(|%s: %s| %s)); %s r_find }' % (
        recv, idt.text, ty, pr, body, idt.text, ty, pr, ghost.replace('$x', idt.text))
    text = text[:toks[rs].start] + rep + text[toks[cl].end:]
    fired.append('R20:iter().find -> v_iter_find')
    return text

def rule_R21(text, args, fired):
    """`let X = loop { .. break V .. };`  ->  `let mut X_opt = None; loop { .. { X_opt = Some(V); break; } .. } let X = X_opt.unwrap();`
    (Verus has no `break` with a value.)  args = [X].  Every `break V` of that loop (not of nested loops) is rewritten; the
    unwrap after the loop is an obligation discharged from the loop's `ensures X_opt is Some` (template loop spec)."""
    var = args[0]
    toks = _tok_code(text)
    pat = ['let', var, '=', 'loop', '{']
    hits = [i for i in range(len(toks) - len(pat)) if [t.text for t in toks[i:i+len(pat)]] == pat]
    if len(hits) != 1:
        raise ExtractError('R21: `let %s = loop {` matched %d times' % (var, len(hits)))
    i = hits[0]
    bo = i + 4
    bc = match_close(toks, bo)
    if toks[bc + 1].text != ';':
        raise ExtractError('R21: the loop is not the whole initialiser of `%s`' % var)
    edits = []     # (start, end, replacement)
    k = bo + 1
    nb = 0
    while k < bc:
        t = toks[k]
        if t.kind == 'id' and t.text in ('loop', 'while', 'for') and not (toks[k-1].text in ('.', '::')):
            # skip a nested loop entirely: its breaks are its own
            j = k + 1
            while j < bc and toks[j].text != '{':
                if toks[j].text in ('(', '['): j = match_close(toks, j)
                j += 1
            k = match_close(toks, j) + 1
            continue
        if t.kind == 'id' and t.text == 'break':
            j = k + 1
            while j < bc and toks[j].text not in (',', ';', '}'):
                if toks[j].text in OPEN: j = match_close(toks, j)
                j += 1
            if j == k + 1:
                raise ExtractError('R21: a `break` without a value in the loop that initialises `%s`' % var)
            val = text[toks[k + 1].start:toks[j - 1].end]
            edits.append((t.start, toks[j - 1].end, '{ %s_opt = Some(%s); break; }' % (var, val)))
            nb += 1
            k = j
            continue
        k += 1
    if nb == 0:
        raise ExtractError('R21: no `break <value>` in the loop that initialises `%s`' % var)
    ty = (': Option<%s>' % args[1]) if len(args) > 1 else ''
    edits.append((toks[i].start, toks[i + 3].start, 'let mut %s_opt%s = None; ' % (var, ty)))
    edits.append((toks[bc + 1].start, toks[bc + 1].end, ' let %s = %s_opt.unwrap();' % (var, var)))
    for a, b, r in sorted(edits, reverse=True):
        text = text[:a] + r + text[b:]
    fired.append('R21:%s (%d break values)' % (var, nb))
    return text

def rule_R8(text, args, fired):
    """`for P in E { B }` over a Vec-valued E  ->  index loop
       `let v_it = E; let mut v_i: usize = 0; while v_i < v_it.len() { let P = v_it[v_i]; v_i += 1; B }`
    (std: iterating a Vec yields its elements in index order; `continue` in B goes to the next element in both forms).
    args = [anchor = the text `for P in E`]"""
    anchor = args[0]
    toks = _tok_code(text)
    atoks = [t.text for t in _tok_code(anchor)]
    hits = [i for i in range(len(toks) - len(atoks) + 1) if [t.text for t in toks[i:i+len(atoks)]] == atoks]
    if len(hits) != 1:
        raise ExtractError('R8 anchor %r matched %d times' % (anchor, len(hits)))
    i = hits[0]
    if toks[i].text != 'for': raise ExtractError('R8 anchor must start with `for`')
    k = i + 1
    while toks[k].text != 'in': k += 1
    pat = text[toks[i+1].start:toks[k-1].end]
    j = k + 1
    while j < len(toks):
        if toks[j].text in ('(', '['): j = match_close(toks, j) + 1; continue
        if toks[j].text == '{': break
        j += 1
    expr = text[toks[k+1].start:toks[j-1].end]
    head = 'let v_it = %s; let mut v_i: usize = 0; while v_i < v_it.len() ' % expr
    text = text[:toks[i].start] + head + '{ let %s = v_it[v_i]; v_i += 1; ' % pat + text[toks[j].end:]
    fired.append('R8:' + anchor)
    return text

def rule_R8s(text, args, fired):
    """`for V in (A..B).step_by(K) { BODY }` -> `let mut V = A; let v_end_V = B; while V < v_end_V { BODY V += K; }`
    (std: a stepped range yields A, A+K, .. while < B; BODY contains no `continue`, checked).
    `for _ in ..` gets the counter name v_cnt.  args = [anchor = `for V in (A..B).step_by(K)`]"""
    anchor = args[0]
    toks = _tok_code(text)
    atoks = [t.text for t in _tok_code(anchor)]
    hits = [i for i in range(len(toks) - len(atoks) + 1) if [t.text for t in toks[i:i+len(atoks)]] == atoks]
    k_occ = int(args[1]) if len(args) > 1 else 1
    if len(hits) < k_occ:
        raise ExtractError('R8s anchor %r matched %d times' % (anchor, len(hits)))
    i = hits[k_occ - 1]
    var = toks[i+1].text
    name = var if var != '_' else 'v_cnt%d' % k_occ
    # ( A .. B ) . step_by ( K )
    j = i + 3
    if toks[j].text != '(': raise ExtractError('R8s: expected a parenthesised range')
    c = match_close(toks, j)
    inner = toks[j+1:c]
    dd = [x for x in range(len(inner)) if inner[x].text == '..']
    if len(dd) != 1: raise ExtractError('R8s: range')
    A = text[inner[0].start:inner[dd[0]-1].end]
    B = text[inner[dd[0]+1].start:inner[-1].end]
    if [t.text for t in toks[c+1:c+4]] != ['.', 'step_by', '(']: raise ExtractError('R8s: step_by')
    c2 = match_close(toks, c + 3)
    K = text[toks[c+4].start:toks[c2-1].end]
    bo = c2 + 1
    if toks[bo].text != '{': raise ExtractError('R8s: body')
    bc = match_close(toks, bo)
    if any(t.text == 'continue' for t in toks[bo:bc]): raise ExtractError('R8s: body has continue')
    head = 'let mut %s: usize = %s; let v_end_%s: usize = %s; while %s < v_end_%s ' % (name, A, name, B, name, name)
    text = text[:toks[i].start] + head + text[toks[bo].start:toks[bc].start] + ' %s += %s; ' % (name, K) + text[toks[bc].start:]
    fired.append('R8s:' + anchor)
    return text

def rule_R8e(text, args, fired):
    """`for (I, E) in X.iter().enumerate() { BODY }` -> index loop `let v_it = &X; let mut v_i = 0; while v_i < v_it.len()
    { let I = v_i; let E = &v_it[v_i]; v_i += 1; BODY }`;  `for E in &X { BODY }` likewise without I.  args = [anchor]"""
    anchor = args[0]
    toks = _tok_code(text)
    atoks = [t.text for t in _tok_code(anchor)]
    hits = [i for i in range(len(toks) - len(atoks) + 1) if [t.text for t in toks[i:i+len(atoks)]] == atoks]
    if len(hits) != 1: raise ExtractError('R8e anchor %r matched %d times' % (anchor, len(hits)))
    i = hits[0]
    k = i + 1
    while toks[k].text != 'in': k += 1
    pat = text[toks[i+1].start:toks[k-1].end].strip()
    j = k + 1
    while j < len(toks):
        if toks[j].text in ('(', '['): j = match_close(toks, j) + 1; continue
        if toks[j].text == '{': break
        j += 1
    expr = text[toks[k+1].start:toks[j-1].end].strip()
    if expr.endswith('.iter().enumerate()'):
        base = expr[:-len('.iter().enumerate()')]
        m = re.match(r'\(\s*(\w+)\s*,\s*(\w+)\s*\)', pat)
        if not m: raise ExtractError('R8e: pattern')
        binds = 'let %s = v_i; let %s = &v_it[v_i];' % (m.group(1), m.group(2))
    elif expr.startswith('&'):
        base = expr[1:]
        binds = 'let %s = &v_it[v_i];' % pat
    else:
        raise ExtractError('R8e: unsupported iterator expression ' + expr)
    head = 'let v_it = &%s; let mut v_i: usize = 0; while v_i < v_it.len() ' % base
    text = text[:toks[i].start] + head + '{ %s v_i += 1; ' % binds + text[toks[j].end:]
    fired.append('R8e:' + anchor)
    return text

def rule_R6(text, args, fired):
    """closure parameters |_| -> |_e|, |&k| -> |k|"""
    def f(toks, i, src):
        t = toks[i]
        if t.text == '|' and i + 2 < len(toks) and toks[i+1].text == '_' and toks[i+2].text == '|':
            return (toks[i+1].start, toks[i+1].end, '_e', i + 3)
        if t.text == '|' and i + 3 < len(toks) and toks[i+1].text == '&' and toks[i+2].kind == 'id' and toks[i+3].text == '|':
            return (toks[i+1].start, toks[i+1].end, '', i + 4)
        return None
    text, n = _sub_tokens(text, f)
    if n: fired.append('R6x%d' % n)
    return text

def rule_R7(text, args, fired):
    """a.clone_from(&b) -> vec_clone_from(&mut a, &b)"""
    def f(toks, i, src):
        t = toks[i]
        if t.kind == 'id' and t.text == 'clone_from' and toks[i-1].text == '.' and toks[i-2].kind == 'id' and toks[i+1].text == '(' \
           and (i - 3 < 0 or toks[i-3].text not in ('.', '::')):
            c = match_close(toks, i + 1)
            arg = src[toks[i+1].end:toks[c].start]
            return (toks[i-2].start, toks[c].end, 'vec_clone_from(&mut %s, %s)' % (toks[i-2].text, arg.strip()), c + 1)
        return None
    text, n = _sub_tokens(text, f)
    if n: fired.append('R7x%d' % n)
    return text

def rule_R10(text, args, fired):
    """diagnostic macros -> opaque prelude calls that keep the arguments (CLI units)."""
    def f(toks, i, src):
        t = toks[i]
        if t.kind == 'id' and t.text in ('anyhow', 'format', 'eprintln', 'eprint', 'println', 'print') and toks[i+1].text == '!' and toks[i+2].text == '(':
            c = match_close(toks, i + 2)
            inner = src[toks[i+2].end:toks[c].start]
            return (t.start, toks[c].end, 'v_%s(&[%s])' % (t.text, _fmt_args(inner)), c + 1)
        return None
    text, n = _sub_tokens(text, f)
    if n: fired.append('R10x%d' % n)
    return text

def _fmt_args(inner):
    """split macro args at top-level commas; each becomes `varg(&(expr))`; literal strings become vlit("..")."""
    toks = _tok_code(inner)
    parts = []; depth = 0; last = 0
    for t in toks:
        if t.kind == 'punct' and t.text in OPEN: depth += 1
        elif t.kind == 'punct' and t.text in CLOSE: depth -= 1
        elif t.text == ',' and depth == 0:
            parts.append(inner[last:t.start]); last = t.end
    parts.append(inner[last:])
    out = []
    for p in parts:
        p = p.strip()
        if not p: continue
        if p.startswith('"'):
            out.append('vlit(%s)' % p)
        else:
            out.append('varg(&(%s))' % p)
    return ', '.join(out)

def rule_R12(text, args, fired):
    """assert!(c) / assert!(c, "msg") / assert_eq!(a,b) / debug_assert!(c) -> assert!(c) forms Verus
    accepts (message dropped; the condition is still a proof obligation)."""
    def f(toks, i, src):
        t = toks[i]
        if t.kind == 'id' and t.text in ('assert', 'debug_assert', 'assert_eq') and toks[i+1].text == '!' and toks[i+2].text == '(':
            c = match_close(toks, i + 2)
            inner_toks = toks[i+3:c]
            # split at top-level commas
            depth = 0; cuts = []
            for k, tt in enumerate(inner_toks):
                if tt.kind == 'punct' and tt.text in OPEN: depth += 1
                elif tt.kind == 'punct' and tt.text in CLOSE: depth -= 1
                elif tt.text == ',' and depth == 0: cuts.append(tt)
            s0 = toks[i+2].end; e0 = toks[c].start
            if t.text == 'assert_eq':
                if not cuts: raise ExtractError('assert_eq! without comma')
                a = src[s0:cuts[0].start].strip()
                b = src[cuts[0].end:(cuts[1].start if len(cuts) > 1 else e0)].strip()
                return (t.start, toks[c].end, 'assert!((%s) == (%s))' % (a, b), c + 1)
            cond = src[s0:(cuts[0].start if cuts else e0)].strip()
            if t.text == 'assert' and not cuts:
                return None
            return (t.start, toks[c].end, 'assert!(%s)' % cond, c + 1)
        return None
    text, n = _sub_tokens(text, f)
    if n: fired.append('R12x%d' % n)
    return text

def rule_R13(text, args, fired):
    """std::cmp::max(a, b) -> v_max_usize(a, b)  (generic Ord fn cannot carry a monomorphic spec)"""
    def f(toks, i, src):
        t = toks[i]
        if t.text == 'std' and [x.text for x in toks[i:i+6]] == ['std', '::', 'cmp', '::', 'max', '(']:
            return (t.start, toks[i+4].end, 'v_max_usize', i + 5)
        if t.text == 'std' and [x.text for x in toks[i:i+6]] == ['std', '::', 'cmp', '::', 'min', '(']:
            return (t.start, toks[i+4].end, 'v_min_usize', i + 5)
        return None
    text, n = _sub_tokens(text, f)
    if n: fired.append('R13x%d' % n)
    return text

def rule_R23(text, args, fired):
    """Path::new(x).exists() -> v_path_exists_any(x) for a plain identifier x (std::path has no Verus spec; the prelude
    function returns path_exists(<text of x>)).  Automatic, so a renamed binding does not lose the site."""
    def f(toks, i, src):
        t = toks[i]
        if t.text == 'Path' and [x.text for x in toks[i:i+4]] == ['Path', '::', 'new', '('] and i + 9 < len(toks) \
           and toks[i+4].kind == 'id' and [x.text for x in toks[i+5:i+10]] == [')', '.', 'exists', '(', ')'] \
           and (i == 0 or toks[i-1].text != '::'):
            return (t.start, toks[i+9].end, 'v_path_exists_any(%s)' % toks[i+4].text, i + 10)
        return None
    text, n = _sub_tokens(text, f)
    if n: fired.append('R23x%d' % n)
    return text

def rule_txt(text, args, fired):
    """explicit single-site textual rewrite: args = [rule-id, src, dst]; src must occur exactly once
    (token-wise) and the pair must match the schema of the named rule."""
    rid, src, dst = args
    toks = _tok_code(text)
    stoks = [t.text for t in _tok_code(src)]
    hits = [i for i in range(len(toks) - len(stoks) + 1) if [t.text for t in toks[i:i+len(stoks)]] == stoks]
    if len(hits) != 1:
        raise ExtractError('%s site %r matched %d times' % (rid, src, len(hits)))
    i = hits[0]
    s, e = toks[i].start, toks[i+len(stoks)-1].end
    text = text[:s] + dst + text[e:]
    fired.append('%s:%s=>%s' % (rid, src, dst))
    return text

def rule_txtall(text, args, fired):
    """like txt but every occurrence (at least one) is rewritten"""
    rid, src, dst = args
    stoks = [t.text for t in _tok_code(src)]
    n = 0
    while True:
        toks = _tok_code(text)
        hits = [i for i in range(len(toks) - len(stoks) + 1) if [t.text for t in toks[i:i+len(stoks)]] == stoks]
        # skip hits that are already inside a rewritten form (dst contains src): only rewrite left to right once
        if n == 0 and not hits:
            raise ExtractError('%s site %r matched 0 times' % (rid, src))
        if n >= 50 or not hits: break
        # rewrite the LAST hit so that earlier offsets stay valid and a dst containing src cannot loop forever
        done_any = False
        for i in reversed(hits):
            s0, e0 = toks[i].start, toks[i+len(stoks)-1].end
            text = text[:s0] + dst + text[e0:]
            n += 1; done_any = True
        break
    fired.append('%s:%s=>%s x%d' % (rid, src, dst, n))
    return text

def rule_R17lit(text, args, fired):
    """"literal".into()  ->  v_string_from("literal")   (impl From<&str> for String)"""
    def f(toks, i, src):
        t = toks[i]
        if t.kind == 'str' and i + 4 < len(toks) and toks[i+1].text == '.' and toks[i+2].text == 'into' and toks[i+3].text == '(' and toks[i+4].text == ')':
            return (t.start, toks[i+4].end, 'v_string_from(%s)' % t.text, i + 5)
        return None
    text, n = _sub_tokens(text, f)
    if n: fired.append('R17litx%d' % n)
    return text

AUTO_RULES = [('R23', rule_R23), ('R13', rule_R13), ('R1', rule_R1), ('R2', rule_R2), ('R3', rule_R3), ('R6', rule_R6), ('R7', rule_R7), ('R12', rule_R12)]
ARG_RULES = {'R5all': rule_R5all, 'R20': rule_R20, 'R21': rule_R21, 'R4': rule_R4, 'R5': rule_R5, 'R5i': rule_R5i, 'R10': rule_R10, 'R15': rule_R15, 'A6': rule_A6, 'R8': rule_R8, 'R8s': rule_R8s, 'R8e': rule_R8e}

# ---------------------------------------------------------------- function assembly

NOINLINE = set()     # helpers whose inlined text did not compile: kept opaque
INLINE = {}          # (file, fn name) -> (param names, param types, body text): straight-line contract-less helpers inlined at their call sites
FORCE_STUB = set()   # (file, fn name, within): functions reduced to signature + contract (body not looked at) for this run
RENAMES = {}     # (file, fn name, within) -> {old local / parameter name: new name}: set by bin/check when a rename is detected

def bound_names(code):
    """identifiers a function binds: parameters, `let [mut] x`, `for x in`, simple closure parameters (used to follow renames)"""
    toks = _tok_code(code)
    names = set()
    for i, t in enumerate(toks):
        if t.kind != 'id': continue
        if t.text == 'let':
            j = i + 1
            if j < len(toks) and toks[j].text == 'mut': j += 1
            if j + 1 < len(toks) and toks[j].kind == 'id' and toks[j].text not in ('ghost', 'tracked') and toks[j + 1].text in ('=', ':', ';'):
                names.add(toks[j].text)          # a plain binding; `let Some(x) = ..` / `let (a, b) = ..` patterns are not followed
        elif t.text == 'for' and i + 2 < len(toks) and toks[i + 1].kind == 'id' and toks[i + 2].text == 'in':
            names.add(toks[i + 1].text)
    try:
        bo = _find_body_open(toks)
        kf = next(i for i, t in enumerate(toks) if t.kind == 'id' and t.text == 'fn')
        k = next(i for i in range(kf, len(toks)) if toks[i].text == '(')
        c = match_close(toks, k)
        depth = 0
        for i in range(k + 1, c):
            if toks[i].text in OPEN: depth += 1
            elif toks[i].text in CLOSE: depth -= 1
            elif depth == 0 and toks[i].kind == 'id' and toks[i + 1].text == ':' and toks[i + 1].kind == 'punct' and toks[i].text not in ('mut', 'self'):
                names.add(toks[i].text)
    except Exception:
        pass
    return names

def _ids_outside_closures(code):
    """identifier tokens of a function, leaving out closure parameter lists and closure bodies (their parameters are separate
    bindings that may reuse a local's name)"""
    toks = _tok_code(code)
    out = []; k = 0; n = len(toks)
    while k < n:
        t = toks[k]
        if t.text == '|' and k > 0 and toks[k - 1].text in ('(', ',', '=', 'move'):
            m = k + 1
            while m < n and toks[m].text != '|': m += 1
            m += 1
            if m < n and toks[m].text == '{': k = match_close(toks, m) + 1
            else:
                depth = 0
                while m < n and not (depth == 0 and toks[m].text in (',', ')', ';')):
                    if toks[m].text in OPEN: depth += 1
                    elif toks[m].text in CLOSE: depth -= 1
                    m += 1
                k = m
            continue
        if t.kind == 'id': out.append(t.text)
        k += 1
    return out

def loop_statements(code):
    """for each loop of the function (in order): the normalised texts of the statements directly in its body, and the same for
    the function body outside every loop.  Used to notice statements that moved across a loop boundary."""
    toks = _tok_code(code)
    try:
        bo = _find_body_open(toks); bc = match_close(toks, bo)
    except Exception:
        return {'loops': [], 'outside': []}
    def stmts(lo, hi):
        out = []; cur = []; k = lo
        while k < hi:
            t = toks[k]
            if t.text in OPEN:
                c = match_close(toks, k)
                cur += [x.text for x in toks[k:c + 1]]
                k = c + 1
                if t.text == '{' and (k >= hi or toks[k].text not in ('else', '.', '?', ';', ')', ',')):
                    out.append(' '.join(cur)); cur = []
                continue
            cur.append(t.text)
            if t.text == ';':
                out.append(' '.join(cur)); cur = []
            k += 1
        if cur: out.append(' '.join(cur))
        return out
    loops = []; outside_ranges = []
    k = bo + 1; last = bo + 1
    while k < bc:
        t = toks[k]
        if t.kind == 'id' and t.text in ('loop', 'while', 'for') and not (toks[k - 1].text in ('.', '::')):
            j = k + 1
            while j < bc and toks[j].text != '{':
                if toks[j].text in ('(', '['): j = match_close(toks, j)
                j += 1
            if j >= bc: break
            c = match_close(toks, j)
            loops.append(sorted(stmts(j + 1, c)))
            outside_ranges.append((last, k)); last = c + 1
            k = c + 1
            continue
        k += 1
    outside_ranges.append((last, bc))
    outside = []
    for lo, hi in outside_ranges: outside += stmts(lo, hi)
    return {'loops': loops, 'outside': sorted(outside)}

def inlinable_helper(repo, file, name):
    """a free private helper `fn name(p1: T1, ..) -> R { straight-line body }` with no `return`, no `?`, no loop, no closure, no
    `self`, no generics: returns (param names, param types, body text without the outer braces), else None"""
    try:
        src = open(os.path.join(repo, file)).read()
        it, n = find_item(src, 'fn', name, None)
        if it is None or n != 1: return None
        code = drop_comments(src[it.start:it.end])
        toks = _tok_code(code)
        kf = next(i for i, t in enumerate(toks) if t.kind == 'id' and t.text == 'fn')
        if toks[kf + 2].text != '(': return None            # generics or odd shape
        k = kf + 2; c = match_close(toks, k)
        bo = _find_body_open(toks); bc = match_close(toks, bo)
        banned = ('return', 'loop', 'while', 'for', 'self', 'Self', 'break', 'continue', 'unsafe', 'async', 'await', 'move')
        for t in toks[bo:bc]:
            if (t.kind == 'id' and t.text in banned) or t.text in ('?', '|', '||'): return None
        if any(t.text in ('<',) for t in toks[kf:k]): return None
        names = []; types = []; depth = 0; cur = []
        for i in range(k + 1, c + 1):
            t = toks[i]
            if i == c or (t.text == ',' and depth == 0):
                if cur:
                    txt = code[cur[0].start:cur[-1].end]
                    if ':' not in txt: return None
                    nm, ty = txt.split(':', 1)
                    nm = nm.strip()
                    if nm.startswith('mut '): nm = nm[4:].strip()
                    if not re.match(r'^[A-Za-z_][A-Za-z0-9_]*$', nm): return None
                    names.append(nm); types.append(ty.strip())
                cur = []
                continue
            if t.text in OPEN or t.text == '<': depth += 1
            elif t.text in CLOSE or t.text == '>': depth -= 1
            cur.append(t)
        body = code[toks[bo].end:toks[bc].start]
        return (names, types, body)
    except Exception:
        return None

def _inline_helpers(text, file, fired):
    """replace calls `helper(a, b)` of registered straight-line helpers of the same file by `{ let p1: T1 = a; let p2: T2 = b; BODY }`"""
    for (hf, hn), (names, types, body) in INLINE.items():
        if hf != file: continue
        for _ in range(20):
            toks = _tok_code(text)
            site = None
            for i, t in enumerate(toks):
                if t.kind == 'id' and t.text == hn and i + 1 < len(toks) and toks[i + 1].text == '(' and not (i > 0 and toks[i - 1].text in ('fn', '.')):
                    site = i; break
            if site is None: break
            # optional path prefix `Type::` / `Self::` / `crate::` before the name
            st = site
            while st >= 2 and toks[st - 1].text == '::' and toks[st - 2].kind == 'id': st -= 2
            c = match_close(toks, site + 1)
            args = []; depth = 0; last = toks[site + 1].end
            for j in range(site + 2, c + 1):
                tt = toks[j]
                if j == c or (tt.text == ',' and depth == 0):
                    a = text[last:tt.start].strip()
                    if a: args.append(a)
                    last = tt.end
                    continue
                if tt.text in OPEN: depth += 1
                elif tt.text in CLOSE: depth -= 1
            if len(args) != len(names): break
            # an argument that is a plain identifier is substituted for its parameter (so the inlined text reads like the
            # code it was extracted from); any other argument is bound once by a `let`
            b2 = body.strip(); binds = []
            for n_, ty, a in zip(names, types, args):
                if a == n_: continue
                if re.match(r'^[A-Za-z_][A-Za-z0-9_]*$', a) and not re.search(r'(?<![A-Za-z0-9_])%s(?![A-Za-z0-9_])' % re.escape(a), b2):
                    b2 = re.sub(r'(?<![A-Za-z0-9_.])%s(?![A-Za-z0-9_])' % re.escape(n_), a, b2)
                else:
                    binds.append('let %s: %s = %s;' % (n_, ty, a))
            prev_t = toks[st - 1].text if st > 0 else '{'
            next_t = toks[c + 1].text if c + 1 < len(toks) else ';'
            whole = prev_t in ('=', '(', ',', '{', ';', 'return') and next_t in (';', ',', ')', '}')
            if not binds and ';' not in b2 and whole:
                rep = b2                      # a single expression standing where a complete operand stood: no wrapping needed
            else:
                rep = '{ ' + ' '.join(binds) + ' ' + b2 + ' }'
            text = text[:toks[st].start] + rep + text[toks[c].end:]
            fired.append('R22:inline %s' % hn)
    return text

def _apply_renames(fs):
    m = RENAMES.get((fs.file, fs.name, fs.within))
    if not m: return fs
    def sub(x):
        if isinstance(x, str):
            for a, b in m.items():
                x = re.sub(r'(?<![A-Za-z0-9_])%s(?![A-Za-z0-9_])' % re.escape(a), b, x)
            return x
        if isinstance(x, list): return [sub(y) for y in x]
        if isinstance(x, tuple): return tuple(sub(y) for y in x)
        if isinstance(x, dict): return {k: sub(v) for k, v in x.items()}
        return x
    g = FnSpec()
    g.__dict__.update(fs.__dict__)
    g.spec = sub(fs.spec); g.loops = sub(fs.loops); g.before = sub(fs.before); g.atend = sub(fs.atend); g.rw = sub(fs.rw)
    changed = (g.spec != fs.spec or g.loops != fs.loops or g.before != fs.before or g.atend != fs.atend or g.rw != fs.rw)
    g.renamed = dict(m) if changed else {}
    return g

class FnSpec:
    def __init__(self):
        self.file = None; self.name = None; self.within = None
        self.ret = None
        self.spec = []          # lines
        self.loops = {}         # n -> (itername, [lines])
        self.before = []        # (anchor, k, [lines], prop_id|None)
        self.atend = []
        self.rw = []            # (rule, args)
        self.opts = []
        self.tline = 0
        self.bodyprefix = None

def _copy_spec_only(fs):
    g = FnSpec()
    g.file, g.name, g.within, g.ret, g.spec, g.tline = fs.file, fs.name, fs.within, fs.ret, list(fs.spec), fs.tline
    g.rw = [(r, a) for (r, a) in fs.rw if r == 'txt' and a and a[0] == 'SIG']
    return g

def _find_body_open(toks):
    """index of the '{' that opens the fn body: first '{' at bracket depth 0 after the params."""
    i = 0
    while i < len(toks):
        t = toks[i]
        if t.text in ('(', '['): i = match_close(toks, i) + 1; continue
        if t.text == '<':
            # generics of fn name: skip
            depth = 0
            while i < len(toks):
                if toks[i].text == '<': depth += 1
                elif toks[i].text == '>': depth -= 1
                elif toks[i].text == '>>': depth -= 2
                elif toks[i].text in ('(', '['): i = match_close(toks, i)
                i += 1
                if depth <= 0: break
            continue
        if t.text == '{': return i
        i += 1
    raise ExtractError('no body')

def _stmt_starts(toks, lo, hi):
    """indices (into toks) of tokens that start a statement anywhere inside toks[lo:hi]
    (token after '{', ';' or '}' that is not inside () or [])."""
    starts = []
    depth_paren = 0
    prev = '{'
    for i in range(lo, hi):
        t = toks[i]
        if depth_paren == 0 and prev in ('{', ';', '}') and t.text not in ('}', 'else', '.', '?'):
            starts.append(i)
        if t.kind == 'punct' and t.text in ('(', '['): depth_paren += 1
        elif t.kind == 'punct' and t.text in (')', ']'): depth_paren -= 1
        prev = t.text if t.kind == 'punct' else 'x'
    return starts

def assemble_fn(repo, fs, record, canary=None, stub=False, soft=None):
    path = os.path.join(repo, fs.file)
    fs = _apply_renames(fs)
    try:
        src = open(path).read()
    except OSError as e:
        raise ExtractError('cannot read %s: %s' % (fs.file, e))
    try:
        it, n = find_item(src, 'fn', fs.name, fs.within)
    except LexError as e:
        raise ExtractError('lex error in %s: %s' % (fs.file, e))
    if it is None:
        raise ExtractError('anchor lost: fn %s%s in %s (%d matches)' % (fs.name, ' in ' + fs.within if fs.within else '', fs.file, n))
    raw = src[it.start:it.end]
    line0 = src.count('\n', 0, it.start) + 1
    fired = []
    text = drop_comments(raw)
    text = strip_attrs(text, fired)
    sha = hashlib.sha256(raw.encode()).hexdigest()
    if INLINE and not stub:
        text = _inline_helpers(text, fs.file, fired)
    for rid, rf in AUTO_RULES:
        text = rf(text, [], fired)
    for rule, args in fs.rw:
        try:
            if rule == 'txt':
                text = rule_txt(text, args, fired)
            elif rule == 'txtall':
                text = rule_txtall(text, args, fired)
            elif rule == 'R17lit':
                text = rule_R17lit(text, args, fired)
            elif rule in ARG_RULES:
                text = ARG_RULES[rule](text, args, fired)
            else:
                raise ExtractError('unknown rule ' + rule)
        except ExtractError as e:
            if soft is None or rule == 'R4': raise
            soft.append('%s: rewrite %s skipped (%s)' % (fs.name, rule, e))
    toks = _tok_code(text)
    bo = _find_body_open(toks)
    bc = match_close(toks, bo)
    if stub:
        # keep the signature, drop the body: the contract is assumed here and proved in the home unit
        text = text[:toks[bo].start] + '{ unimplemented!() }'
        toks = _tok_code(text)
        bo = _find_body_open(toks)
        bc = match_close(toks, bo)
        fs = _copy_spec_only(fs)
        canary = None
    inserts = []   # (offset, text, tag)
    # A1: name the return value
    if fs.ret:
        arrow = None
        i = 0
        while i < bo:
            if toks[i].text in ('(', '['): i = match_close(toks, i) + 1; continue
            if toks[i].text == '->': arrow = i; break
            i += 1
        if arrow is None:
            raise ExtractError('fn %s has no return type to name' % fs.name)
        # return type ends at 'where' or body
        j = arrow + 1
        end = bo
        k = j
        while k < bo:
            if toks[k].text == 'where': end = k; break
            if toks[k].text in ('(', '['): k = match_close(toks, k)
            k += 1
        inserts.append((toks[j].start, '(%s: ' % fs.ret, 'A1'))
        inserts.append((toks[end-1].end, ')', 'A1'))
    if fs.spec:
        inserts.append((toks[bo].start, '\n' + '\n'.join(fs.spec) + '\n', 'SPEC'))
    # loops
    loop_idx = [i for i in range(bo, bc) if toks[i].kind == 'id' and toks[i].text in ('loop', 'while', 'for')
                and not (i > 0 and toks[i-1].text in ('.', '::'))]
    for n, (itname, lines) in fs.loops.items():
        if n < 1 or n > len(loop_idx):
            if soft is not None:
                soft.append('%s: contract of loop %d skipped (the function now has %d loops)' % (fs.name, n, len(loop_idx))); continue
            raise ExtractError('anchor lost: loop %d of fn %s (has %d loops)' % (n, fs.name, len(loop_idx)))
        li = loop_idx[n-1]
        # body '{' of the loop: first '{' at paren depth 0 after keyword, skipping struct-literal-free conditions
        j = li + 1
        while j < bc:
            if toks[j].text in ('(', '['): j = match_close(toks, j) + 1; continue
            if toks[j].text == '{': break
            j += 1
        if itname:
            if toks[li].text != 'for':
                if soft is not None:
                    soft.append('%s: contract of loop %d skipped (no longer a for loop)' % (fs.name, n)); continue
                raise ExtractError('loop %d of %s is not a for loop' % (n, fs.name))
            k = li + 1
            while toks[k].text != 'in': k += 1
            inserts.append((toks[k].end, ' %s:' % itname, 'A4'))
        inserts.append((toks[j].start, '\n' + '\n'.join(lines) + '\n', 'LOOPSPEC'))
    # before-anchors
    starts = _stmt_starts(toks, bo, bc)
    for anchor, k, lines, prop in fs.before:
        atoks = [t.text for t in _tok_code(anchor)]
        hits = [i for i in starts if [t.text for t in toks[i:i+len(atoks)]] == atoks]
        if not hits and len(atoks) > 2:
            # relaxed anchor: the statement may have been re-spelled further to the right (a type annotation dropped, an
            # argument renamed); shorter and shorter prefixes of the anchor are tried while they still identify k-th of a kind
            def norm(ts): return [x for x in ts if x != 'mut']
            for n_ in range(len(atoks) - 1, 1, -1):
                pre = norm(atoks[:n_])
                if len(pre) < 2: break
                cand = [i for i in starts if norm([t.text for t in toks[i:i + n_ + 1]])[:len(pre)] == pre]
                if cand:
                    hits = cand
                    if soft is not None: soft.append('%s: anchor %r matched by its prefix %r' % (fs.name, anchor, ' '.join(pre)))
                    break
        if k < 1 or k > len(hits):
            if soft is not None:
                soft.append('%s: hint before %r #%d skipped (anchor lost)' % (fs.name, anchor, k)); continue
            raise ExtractError('anchor lost: statement %r #%d in fn %s (%d matches)' % (anchor, k, fs.name, len(hits)))
        if len(hits) > 1 and k == 0:
            raise ExtractError('ambiguous anchor %r in %s' % (anchor, fs.name))
        i = hits[k-1]
        if prop == '\x00after':
            # end of the statement: the ';' at bracket depth 0 after its start
            j = i
            while j < bc:
                if toks[j].text in OPEN: j = match_close(toks, j) + 1; continue
                if toks[j].text == ';': break
                j += 1
            inserts.append((toks[j].end, '\n' + '\n'.join(lines) + '\n', 'HINT'))
            continue
        tag = ('PROP:' + prop) if prop else 'HINT'
        inserts.append((toks[i].start, '\n'.join(lines) + '\n', tag))
    if fs.atend:
        inserts.append((toks[bc].start, '\n'.join(fs.atend) + '\n', 'HINT'))
    if fs.bodyprefix:
        inserts.append((toks[bo].end, '\n    ' + fs.bodyprefix + '\n', 'HINT'))
    CAN = ' proof { assert(false); } /*CANARY*/ '
    n_canaries = 0
    if canary in ('start', 'sl'):
        inserts.append((toks[bo].end, CAN, 'CANARY')); n_canaries = 1
    if canary == 'end':
        # before the last top-level statement of the body
        depth = 0; top = []
        prev = '{'
        for i in range(bo + 1, bc):
            t = toks[i]
            if depth == 0 and prev in ('{', ';', '}') and t.text not in ('else', '.', '?', ')', ']', '}'):
                top.append(i)
            if t.kind == 'punct' and t.text in OPEN: depth += 1
            elif t.kind == 'punct' and t.text in CLOSE: depth -= 1
            prev = t.text if (t.kind == 'punct' and depth == 0) else 'x'
        if top:
            inserts.append((toks[top[-1]].start, CAN, 'CANARY')); n_canaries = 1
    if canary in ('loops', 'sl'):
        for li in loop_idx:
            j = li + 1
            while j < bc:
                if toks[j].text in ('(', '['): j = match_close(toks, j) + 1; continue
                if toks[j].text == '{': break
                j += 1
            inserts.append((toks[j].end, CAN, 'CANARY')); n_canaries += 1
    # apply inserts, building a line-origin map
    order = {'A1': 0, 'A4': 0, 'SPEC': 1, 'LOOPSPEC': 1, 'HINT': 3, 'CANARY': 4}
    inserts = [(off, order.get(tag.split(':')[0], 2), k, ins, tag) for k, (off, ins, tag) in enumerate(inserts)]
    inserts.sort()
    inserts = [(off, ins, tag) for off, _, _, ins, tag in inserts]
    pieces = []   # (text, tag)
    last = 0
    for off, ins, tag in inserts:
        pieces.append((text[last:off], 'CODE'))
        pieces.append((ins, tag))
        last = off
    pieces.append((text[last:], 'CODE'))
    _bn = bound_names(drop_comments(raw)); _tk = _ids_outside_closures(drop_comments(raw))
    _order = []
    for _x in _tk:
        if _x in _bn and _x not in _order: _order.append(_x)
    record.append({'key': [fs.file, fs.name, fs.within], 'names': sorted(_bn), 'name_order': _order, 'name_uses': {x: _tk.count(x) for x in _bn}, 'loop_stmts': loop_statements(drop_comments(raw)), 'renamed': getattr(fs, 'renamed', {}), 'code': text, 'simple': fs.name, 'fn': (fs.within + '::' if fs.within else '') + fs.name, 'file': fs.file, 'line': line0,
                   'sha256': sha, 'rules': fired, 'n_loops': len(loop_idx), 'n_canaries': n_canaries})
    return pieces

# ---------------------------------------------------------------- template driver

class Unit:
    def __init__(self):
        self.text = ''
        self.segs = []      # (start_line, end_line, tag, origin)  1-based inclusive lines of generated file
        self.functions = []
        self.items = []
        self.lemma_canaries = []
        self.stubs = []

def _parse_quoted(rest):
    return shlex.split(rest)

def _collect_fnspecs(verif, template_path):
    """parse a template (following includes) and return {(file, name, within): FnSpec} without touching the repo"""
    res = {}
    defs = {}
    def expand(ln):
        if '$' in ln:
            for k in sorted(defs, key=len, reverse=True):
                ln = ln.replace('$' + k, defs[k])
        return ln
    def proc(path):
        lines = open(path).read().split('\n')
        impl_open = None
        i = 0
        while i < len(lines):
            s = lines[i].strip()
            if s.startswith('//@ def '):
                p0 = s[len('//@ def '):].split(None, 1); defs[p0[0]] = p0[1] if len(p0) > 1 else ''; i += 1; continue
            s = expand(s)
            if not s.startswith('//@'): i += 1; continue
            parts = _parse_quoted(s[3:].strip()) if s[3:].strip() else ['#']
            cmd = parts[0]
            if cmd == 'include': proc(os.path.join(verif, parts[1])); i += 1; continue
            if cmd == 'impl': impl_open = (parts[1], parts[2].replace('impl ', '', 1)); i += 1; continue
            if cmd == 'endimpl': impl_open = None; i += 1; continue
            if cmd == 'fn':
                fs = FnSpec(); fs.file, fs.name = parts[1], parts[2]; fs.tline = i + 1
                rest = parts[3:]
                if 'in' in rest: fs.within = rest[rest.index('in') + 1].replace('impl ', '', 1)
                elif impl_open and impl_open[0] == fs.file: fs.within = impl_open[1]
                i += 1; cur = None
                while i < len(lines):
                    s2 = expand(lines[i]).strip()
                    if s2.startswith('//@'):
                        d2 = s2[3:].strip(); p2 = _parse_quoted(d2) if d2 else ['#']
                        if p2[0] == 'endfn': i += 1; break
                        if p2[0] == 'def':
                            p0 = d2[len('def'):].strip().split(None, 1); defs[p0[0]] = p0[1] if len(p0) > 1 else ''
                        elif p2[0] == 'ret': fs.ret = p2[1]; cur = None
                        elif p2[0] == 'spec': cur = fs.spec
                        else: cur = []
                    elif cur is not None:
                        cur.append(expand(lines[i]))
                    i += 1
                res[(fs.file, fs.name, fs.within)] = fs
                continue
            i += 1
    proc(template_path)
    return res

def build_unit(verif, repo, template_path, canary=False, soft=False, extra_fns=None):
    u = Unit()
    u.degraded = []
    extra_fns = extra_fns or []   # [(repo file, fn name)] helpers the code now calls that have no contract
    out = []      # list of (text, tag, origin)
    def emit(text, tag, origin):
        out.append((text, tag, origin))
    state = {'bodyprefix': None, 'mods': [], 'defs': {}}
    def process(path, depth=0):
        if depth > 5: raise ExtractError('include depth')
        lines = open(path).read().split('\n')
        rel = os.path.relpath(path, verif)
        def expand(ln):
            if '$' in ln:
                for k in sorted(state['defs'], key=len, reverse=True):
                    ln = ln.replace('$' + k, state['defs'][k])
            return ln
        i = 0
        impl_open = None
        while i < len(lines):
            ln = lines[i]
            s = ln.strip()
            if s.startswith('//@ def '):
                parts0 = s[len('//@ def '):].split(None, 1)
                state['defs'][parts0[0]] = parts0[1] if len(parts0) > 1 else ''
                i += 1; continue
            ln = expand(ln); s = ln.strip()
            if not s.startswith('//@'):
                mm = re.match(r'^(pub(\([a-z]+\))?\s+)?mod\s+(\w+)\s*\{\s*$', s)
                if mm and depth == 0: state['mods'].append(mm.group(3))
                mm = re.match(r'^\}\s*//\s*mod\s+(\w+)', s)
                if mm and depth == 0:
                    if not state['mods'] or state['mods'][-1] != mm.group(1):
                        raise ExtractError('%s:%d unbalanced mod marker' % (rel, i + 1))
                    state['mods'].pop()
                mm = re.search(r'\bproof\s+fn\s+(\w+)', s)
                if mm: state['lemma'] = mm.group(1)
                if ln.rstrip().endswith('//@C'):
                    body = ln.rstrip()[:-len('//@C')].rstrip()
                    if canary == 'end' and body.endswith('}'):
                        emit(body[:-1], 'TPL', '%s:%d' % (rel, i + 1))
                        emit(' assert(false); /*CANARY*/ ', 'CANARY|lemma:' + '::'.join(state['mods'] + [state.get('lemma', '?')]), '%s:%d' % (rel, i + 1))
                        emit('}\n', 'TPL', '%s:%d' % (rel, i + 1))
                        u.lemma_canaries.append('lemma:' + '::'.join(state['mods'] + [state.get('lemma', '?')]))
                    else:
                        emit(body + '\n', 'TPL', '%s:%d' % (rel, i + 1))
                    i += 1; continue
                emit(ln + '\n', 'TPL', '%s:%d' % (rel, i + 1)); i += 1; continue
            d = s[3:].strip()
            if not d or d.startswith('#'):
                i += 1; continue
            parts = _parse_quoted(d)
            cmd = parts[0]
            if cmd == 'unit':
                i += 1; continue
            if cmd == 'bodyprefix':
                state['bodyprefix'] = d[len('bodyprefix'):].strip() or None
                i += 1; continue
            if cmd == 'include':
                process(os.path.join(verif, parts[1]), depth + 1); i += 1; continue
            if cmd in ('const', 'item'):
                if cmd == 'const':
                    f, kind, name = parts[1], 'const', parts[2]; opts = parts[3:]
                else:
                    f, kind, name = parts[1], parts[2], parts[3]; opts = parts[4:]
                src = open(os.path.join(repo, f)).read()
                within = None
                if 'in' in opts:
                    within = opts[opts.index('in') + 1]
                it, n = find_item(src, kind, name, within)
                if it is None:
                    raise ExtractError('anchor lost: %s %s in %s (%d matches)' % (kind, name, f, n))
                raw = src[it.start:it.end]
                fired = []
                text = strip_attrs(drop_comments(raw), fired, keep_derive=('drop-derive' not in opts))
                text = rule_R1(text, [], fired)
                for o in opts:
                    if o.startswith('prefix='):
                        tk = _tok_code(text); k = 0
                        while k < len(tk) and tk[k].text == '#':
                            k = match_close(tk, k + 1) + 1
                        text = text[:tk[k].start] + o[len('prefix='):] + ' ' + text[tk[k].start:]
                        fired.append('visibility:' + o[len('prefix='):])
                u.items.append({'item': '%s %s' % (kind, name), 'file': f, 'line': src.count('\n', 0, it.start) + 1,
                                'sha256': hashlib.sha256(raw.encode()).hexdigest(), 'rules': fired})
                emit(text + '\n', 'CODE', '%s:%d' % (f, src.count('\n', 0, it.start) + 1)); i += 1; continue
            if cmd == 'derivedclone':
                # //@ derivedclone <repo file> <Struct> "<ensures text>"   (rule R11)
                # #[derive(Clone)] present: the field-wise expansion is generated from the struct's own field list;
                # otherwise the hand-written `impl Clone for <Struct>` of the repository is extracted under the same contract.
                f, name, ens = parts[1], parts[2], parts[3]
                src = open(os.path.join(repo, f)).read()
                it, n = find_item(src, 'struct', name)
                if it is None:
                    raise ExtractError('anchor lost: struct %s in %s (%d matches)' % (name, f, n))
                raw = drop_comments(src[it.start:it.end])
                if re.search(r'#\s*\[\s*derive\s*\([^\]]*\bClone\b', raw):
                    tuple_like = '{' not in raw
                    body = raw[raw.index('(', raw.index(name)) + 1: raw.rindex(')')] if tuple_like else raw[raw.index('{') + 1: raw.rindex('}')]
                    flds = []
                    depth = 0; curf = ''
                    for ch in body:
                        if ch in '<([': depth += 1
                        if ch in '>)]': depth -= 1
                        if ch == ',' and depth == 0:
                            flds.append(curf); curf = ''
                        else: curf += ch
                    if curf.strip(): flds.append(curf)
                    inits = []
                    for fd in flds:
                        fd = re.sub(r'#\s*\[[^\]]*\]', '', fd).strip()
                        if not fd: continue
                        if tuple_like:
                            fty = re.sub(r'^pub(?:\([^)]*\))?\s+', '', fd)
                            inits.append('self.%d%s' % (len(inits), '.clone()' if re.match(r'(Vec\s*<|String\b)', fty) else ''))
                            continue
                        mm = re.match(r'(?:pub(?:\([^)]*\))?\s+)?(\w+)\s*:\s*(.+)$', fd, re.S)
                        if not mm: raise ExtractError('derivedclone: cannot parse field %r of %s' % (fd, name))
                        fnm, fty = mm.group(1), mm.group(2).strip()
                        inits.append('%s: self.%s%s' % (fnm, fnm, '.clone()' if re.match(r'(Vec\s*<|String\b)', fty) else ''))
                    text = 'impl Clone for %s {\n    // rule R11: the expansion of #[derive(Clone)], generated from the field list\n    fn clone(&self) -> (r: Self)\n        ensures %s\n    { %s%s }\n}\n' % (name, ens, name + ('(' if tuple_like else ' { ') + ', '.join(inits) + (')' if tuple_like else ' }'), '')
                    u.items.append({'item': 'derive(Clone) for %s' % name, 'file': f, 'line': src.count('\n', 0, it.start) + 1,
                                    'sha256': hashlib.sha256(raw.encode()).hexdigest(), 'rules': ['R11:derive(Clone) expanded field-wise']})
                    emit(text, 'TPL', '%s:%d' % (rel, i + 1)); i += 1; continue
                impls = [x for x in items_in(src) if x.kind == 'impl' and x.name == 'Clone for ' + name]
                if len(impls) != 1:
                    raise ExtractError('anchor lost: neither derive(Clone) nor impl Clone for %s in %s' % (name, f))
                itxt = src[impls[0].start:impls[0].end]
                nl = ['//@ impl %s "impl Clone for %s"' % (f, name), '//@ fn %s clone' % f, '//@ ret r', '//@ spec', '    ensures %s,' % ens, '//@ endfn']
                if re.search(r'\bfn\s+clone_from\b', itxt):
                    nl += ['//@ fn %s clone_from' % f, '//@ endfn']
                nl += ['//@ endimpl']
                lines[i:i + 1] = nl
                continue
            if cmd == 'impl':
                f, hdr = parts[1], parts[2]
                newhdr = hdr
                if 'as' in parts[3:]:
                    newhdr = parts[parts.index('as') + 1]
                src = open(os.path.join(repo, f)).read()
                cands = [it for it in items_in(src) if it.kind == 'impl' and it.name == hdr.replace('impl ', '', 1)]
                if len(cands) != 1:
                    raise ExtractError('anchor lost: %s in %s (%d matches)' % (hdr, f, len(cands)))
                emit(newhdr + ' {\n', 'TPL', '%s:%d' % (rel, i + 1))
                impl_open = (f, hdr.replace('impl ', '', 1))
                i += 1; continue
            if cmd == 'endimpl':
                emit('}\n', 'TPL', '%s:%d' % (rel, i + 1))
                ifile = impl_open[0] if impl_open else None
                impl_open = None
                for ent in list(extra_fns):
                    if len(ent) == 3 and ent[2] == '\x00const': continue
                    xf, xn = ent[0], ent[1]
                    xw = ent[2] if len(ent) > 2 else None
                    if xf == ifile and ent not in state.setdefault('extra_done', set()):
                        state['extra_done'].add(ent)
                        xs = FnSpec(); xs.file, xs.name, xs.tline = xf, xn, i + 1
                        xs.within = xw
                        xs.bodyprefix = state['bodyprefix']
                        try:
                            xp = assemble_fn(repo, xs, u.functions, None, stub=True, soft=u.degraded)
                        except ExtractError as e:
                            u.degraded.append('helper %s could not be extracted: %s' % (xn, e)); continue
                        if xw: emit('impl %s {\n' % xw, 'TPL', rel)
                        u.functions[-1]['fn'] = '::'.join(state['mods'] + [xn]); u.functions[-1]['vname'] = u.functions[-1]['fn']
                        u.functions[-1]['auto_helper'] = True
                        u.degraded.append('new helper fn %s in %s included as an opaque (external_body) function WITHOUT a contract' % (xn, xf))
                        emit('#[verifier::external_body]\n', 'TPL', rel)
                        for txt, tag in xp:
                            emit(txt, tag + '|' + u.functions[-1]['fn'], '%s:%d' % (xf, u.functions[-1]['line']))
                        emit('\n', 'TPL', rel)
                        if xw: emit('}\n', 'TPL', rel)
                i += 1; continue
            if cmd == 'opaque':
                # //@ opaque <repo file> <name> [in "<impl header>"] : signature only, body NOT verified, NO contract (listed as unverified)
                xs = FnSpec(); xs.file, xs.name, xs.tline = parts[1], parts[2], i + 1
                if 'in' in parts[3:]: xs.within = parts[parts.index('in') + 1].replace('impl ', '', 1)
                rec = []
                pieces = assemble_fn(repo, xs, rec, None, stub=True)
                u.stubs.append({'fn': parts[2], 'home': 'opaque (unverified, no contract)', 'sha256': rec[0]['sha256']})
                emit('#[verifier::external_body]\n', 'TPL', '%s:%d' % (rel, i + 1))
                for txt, tag in pieces:
                    emit(txt, 'STUB', '%s:%d' % (rel, i + 1))
                emit('\n', 'TPL', rel)
                i += 1; continue
            if cmd == 'stub':
                # //@ stub <template> <repo file> <name> [in "<impl header>"] : same signature and contract as in the home unit, body assumed
                tpl = os.path.join(verif, parts[1])
                if tpl not in state.setdefault('stubcache', {}):
                    state['stubcache'][tpl] = _collect_fnspecs(verif, tpl)
                within = None
                if 'in' in parts[4:]:
                    within = parts[parts.index('in') + 1].replace('impl ', '', 1)
                key = (parts[2], parts[3], within)
                if key not in state['stubcache'][tpl]:
                    raise ExtractError('%s:%d stub: no contract for %r in %s' % (rel, i + 1, key, parts[1]))
                fs0 = state['stubcache'][tpl][key]
                rec = []
                pieces = assemble_fn(repo, fs0, rec, None, stub=True)
                u.stubs.append({'fn': (within + '::' if within else '') + parts[3], 'home': parts[1], 'sha256': rec[0]['sha256']})
                emit('#[verifier::external_body]\n', 'TPL', '%s:%d' % (rel, i + 1))
                for txt, tag in pieces:
                    emit(txt, 'STUB', '%s:%d' % (rel, i + 1))
                emit('\n', 'TPL', rel)
                i += 1; continue
            if cmd == 'fn' and not impl_open:
                # constants the edited code now refers to (degraded mode): copied verbatim ahead of the function
                for ent in list(extra_fns):
                    if len(ent) == 3 and ent[2] == '\x00const' and ent[0] == parts[1] and ent not in state.setdefault('extra_done', set()):
                        state['extra_done'].add(ent)
                        try:
                            csrc = open(os.path.join(repo, ent[0])).read()
                            cit, cn = find_item(csrc, 'const', ent[1])
                            if cit is None:
                                cit, cn = find_item(csrc, 'static', ent[1])
                            if cit is not None:
                                cf = []
                                ctext = rule_R1(strip_attrs(drop_comments(csrc[cit.start:cit.end]), cf), [], cf)
                                emit(ctext + '\n', 'CODE', '%s:%d' % (ent[0], csrc.count('\n', 0, cit.start) + 1))
                                u.degraded.append('new constant %s in %s copied verbatim' % (ent[1], ent[0]))
                        except Exception as e:
                            u.degraded.append('constant %s could not be extracted: %r' % (ent[1], e))
            if cmd == 'fn':
                fs = FnSpec(); fs.tline = i + 1
                fs.file, fs.name = parts[1], parts[2]
                rest = parts[3:]
                if 'in' in rest:
                    fs.within = rest[rest.index('in') + 1].replace('impl ', '', 1)
                elif impl_open and impl_open[0] == fs.file:
                    fs.within = impl_open[1]
                fs.opts = rest
                fs.bodyprefix = state['bodyprefix']
                i += 1
                cur = None
                while i < len(lines):
                    lines[i] = expand(lines[i])
                    s2 = lines[i].strip()
                    if s2.startswith('//@'):
                        d2 = s2[3:].strip()
                        p2 = _parse_quoted(d2) if d2 else ['#']
                        c2 = p2[0]
                        if c2 == 'endfn': i += 1; break
                        if c2.startswith('#'): i += 1; continue
                        if c2 == 'def':
                            parts0 = d2[len('def'):].strip().split(None, 1)
                            state['defs'][parts0[0]] = parts0[1] if len(parts0) > 1 else ''
                            i += 1; continue
                        if c2 == 'ret': fs.ret = p2[1]; cur = None
                        elif c2 == 'spec': cur = fs.spec
                        elif c2 == 'loop':
                            n = int(p2[1]); itn = p2[3] if len(p2) > 3 and p2[2] == 'iter' else None
                            cur = []; fs.loops[n] = (itn, cur)
                        elif c2 == 'before':
                            k = 1
                            if len(p2) > 2 and p2[2].startswith('#'): k = int(p2[2][1:])
                            cur = []; fs.before.append((p2[1], k, cur, None))
                        elif c2 == 'after':
                            k = 1
                            if len(p2) > 2 and p2[2].startswith('#'): k = int(p2[2][1:])
                            cur = []; fs.before.append((p2[1], k, cur, '\x00after'))
                        elif c2 == 'prop':
                            # prop <id> before "<anchor>" [#k]
                            k = 1
                            if len(p2) > 4 and p2[4].startswith('#'): k = int(p2[4][1:])
                            cur = []; fs.before.append((p2[3], k, cur, p2[1]))
                        elif c2 == 'atend': cur = fs.atend
                        elif c2 == 'rw':
                            fs.rw.append((p2[1], p2[2:])); cur = None
                        else:
                            raise ExtractError('%s:%d unknown fn directive %s' % (rel, i + 1, c2))
                        i += 1; continue
                    if cur is None:
                        if s2: raise ExtractError('%s:%d text outside a block' % (rel, i + 1))
                    else:
                        cur.append(lines[i])
                    i += 1
                forced = (fs.file, fs.name, fs.within) in FORCE_STUB
                if forced:
                    # a function OUTSIDE the property's closure that does not compile on this tree: keep its signature and
                    # contract only, so that the rest of the unit can still be judged
                    pieces = assemble_fn(repo, fs, u.functions, None, stub=True, soft=(u.degraded if soft else None))
                    u.functions[-1]['forced_stub'] = True
                    u.degraded.append('%s reduced to its signature (it does not compile in the verifier on this tree and no function of this property calls it)' % fs.name)
                    emit('#[verifier::external_body]\n', 'TPL', '%s:%d' % (rel, fs.tline))
                else:
                    try:
                        pieces = assemble_fn(repo, fs, u.functions, canary, soft=(u.degraded if soft else None))
                    except ExtractError as e_:
                        # a contracted function that no longer exists on this tree (removed or renamed): in soft mode it is
                        # left out; callers that still name it will not compile, callers that do not are judged as they are
                        if soft and 'anchor lost: fn ' in str(e_):
                            u.degraded.append('function %s no longer exists in %s: its contract is dropped for this run' % (fs.name, fs.file))
                            continue
                        raise
                w = fs.within.split(' for ')[-1] if fs.within else None
                if w: w = re.sub(r'<.*', '', w).strip()
                u.functions[-1]['vname'] = '::'.join(state['mods'] + ([w] if w else []) + [fs.name])
                u.functions[-1]['fn'] = '::'.join(state['mods'] + [u.functions[-1]['fn']])
                u.functions[-1]['template'] = '%s:%d' % (rel, fs.tline)
                u.functions[-1]['n_spec_lines'] = len([l for l in fs.spec if l.strip()])
                u.functions[-1]['n_hint_blocks'] = len(fs.before)
                fname = u.functions[-1]['fn']
                for txt, tag in pieces:
                    origin = '%s:%d' % (fs.file, u.functions[-1]['line']) if tag == 'CODE' else '%s:%d' % (rel, fs.tline)
                    emit(txt, tag + '|' + fname, origin)
                emit('\n', 'TPL', rel)
                for ent in list(extra_fns):
                    if len(ent) > 2: continue      # methods are emitted at endimpl
                    xf, xn = ent
                    if xf == fs.file and (not fs.within or not impl_open) and ent not in state.setdefault('extra_done', set()):
                        state['extra_done'].add(ent)
                        xs = FnSpec(); xs.file, xs.name, xs.tline = xf, xn, fs.tline
                        xs.bodyprefix = fs.bodyprefix
                        try:
                            xp = assemble_fn(repo, xs, u.functions, None, stub=True, soft=u.degraded)
                        except ExtractError as e:
                            u.degraded.append('helper %s could not be extracted: %s' % (xn, e)); continue
                        u.functions[-1]['fn'] = '::'.join(state['mods'] + [xn]); u.functions[-1]['vname'] = u.functions[-1]['fn']
                        u.functions[-1]['auto_helper'] = True
                        u.degraded.append('new helper fn %s in %s included as an opaque (external_body) function WITHOUT a contract' % (xn, xf))
                        emit('#[verifier::external_body]\n', 'TPL', rel)
                        for txt, tag in xp:
                            emit(txt, tag + '|' + u.functions[-1]['fn'], '%s:%d' % (xf, u.functions[-1]['line']))
                        emit('\n', 'TPL', rel)
                continue
            raise ExtractError('%s:%d unknown directive %s' % (rel, i + 1, cmd))
    process(template_path)
    # build text + byte segments
    off = 0
    buf = []
    for text, tag, origin in out:
        b = len(text.encode())
        if b:
            u.segs.append((off, off + b, tag, origin))
        buf.append(text)
        off += b
    u.text = ''.join(buf)
    return u

def classify_offset(u, off):
    """(tag, origin) of the generated byte offset."""
    for s, e, tag, origin in u.segs:
        if s <= off < e:
            return tag, origin
    return ('?', '?')

def call_closure(unit, roots):
    """functions (ids) reachable from the root patterns through calls between extracted functions.
    Name based and deliberately over-approximate: `x.name(`, `T::name(` and `name(` all count; for a name that
    several extracted functions share, a `T::name(` occurrence selects T, otherwise every candidate is taken."""
    fns = unit.functions
    by_simple = {}
    for f in fns:
        by_simple.setdefault(f['simple'], []).append(f)
    def matches(fid, pats):
        for p in pats:
            if p == fid or (p.endswith('*') and fid.startswith(p[:-1])): return True
        return False
    todo = [f for f in fns if matches(f['fn'], roots)]
    seen = set(f['fn'] for f in todo)
    while todo:
        f = todo.pop()
        toks = [t for t in lex(f.get('code', '')) if t.kind != 'comment']
        for i, t in enumerate(toks):
            if t.kind != 'id' or t.text not in by_simple: continue
            if i + 1 >= len(toks) or toks[i+1].text not in ('(', '::'):
                # also function items passed by name: map_err(read_err)
                if not (i > 0 and toks[i-1].text == '(' and i + 1 < len(toks) and toks[i+1].text == ')'):
                    continue
            cands = by_simple[t.text]
            if len(cands) > 1 and i >= 2 and toks[i-1].text == '::' and toks[i-2].kind == 'id':
                ty = toks[i-2].text
                sel = [c for c in cands if ('::' + ty + '::') in ('::' + c['fn']) or (' for ' + ty + '::') in c['fn'] or c['fn'].startswith(ty + '::')]
                if sel: cands = sel
            for c in cands:
                if c['fn'] not in seen and c['fn'] != f['fn']:
                    seen.add(c['fn']); todo.append(c)
    return seen
