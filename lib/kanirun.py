"""Run Kani harnesses from /verif/kani/*.rs on a scratch copy of the working tree (nothing is written to /repo).

Harness files start with directive comments:
  //@ append <repo file>                       the file the module text is appended to
  //@ harness <name> <complete|bounded> "<bound text>" [unwind=N] [stubs=1] [replay=<test fn>]
A witness (concrete_vals of the single `kani::any::<[u8; N]>()`) is extracted with --concrete-playback=print and
replayed natively on the real code by the `#[test]` replay function of the same module.
"""
import json, os, re, shlex, shutil, signal, subprocess, time

def _run(cmd, cwd, env, timeout):
    """run with a process group, so that a timeout also kills cbmc / kani-driver children"""
    p = subprocess.Popen(cmd, cwd=cwd, env=env, stdout=subprocess.PIPE, stderr=subprocess.STDOUT, text=True, start_new_session=True)
    try:
        out, _ = p.communicate(timeout=timeout)
        return p.returncode, out, False
    except subprocess.TimeoutExpired:
        try: os.killpg(p.pid, signal.SIGKILL)
        except Exception: pass
        try: out, _ = p.communicate(timeout=10)
        except Exception: out = ''
        return -9, out or '', True

def parse_harness_file(path):
    txt = open(path).read()
    append = None; harnesses = []
    for ln in txt.split('\n'):
        s = ln.strip()
        if s.startswith('//@ append '):
            append = s[len('//@ append '):].strip()
        elif s.startswith('//@ create '):
            append = '+' + s[len('//@ create '):].strip()       # a new file (integration test) in the scratch copy
        elif s.startswith('//@ native '):
            p = shlex.split(s[len('//@ native '):])
            harnesses.append({'name': p[0], 'mode': 'native', 'bound': p[1] if len(p) > 1 else '', 'opts': {}})
        elif s.startswith('//@ harness '):
            p = shlex.split(s[len('//@ harness '):])
            h = {'name': p[0], 'mode': p[1], 'bound': p[2] if len(p) > 2 else '', 'opts': {}}
            for o in p[3:]:
                if '=' in o:
                    k, v = o.split('=', 1); h['opts'][k] = v
            harnesses.append(h)
    return append, harnesses, txt

def prepare(verif, repo, scratch):
    """copy the working tree and append every harness module; returns (dir, {harness name: info})"""
    d = os.path.join(scratch, 'kani-src')
    if os.path.exists(d):
        return d, json.load(open(os.path.join(d, '.verif_harnesses.json')))
    subprocess.run(['rsync', '-a', '--exclude', 'target', '--exclude', '.git', repo.rstrip('/') + '/', d + '/'], check=True)
    os.makedirs(os.path.join(d, '.cargo'), exist_ok=True)
    with open(os.path.join(d, '.cargo', 'config.toml'), 'a') as f:
        f.write('\n[net]\noffline = true\n')
    info = {}
    kdir = os.path.join(verif, 'kani')
    for fn in sorted(os.listdir(kdir)):
        if not fn.endswith('.rs'): continue
        append, hs, txt = parse_harness_file(os.path.join(kdir, fn))
        if not append: continue
        if append.startswith('+'):
            append = append[1:]
            target = os.path.join(d, append)
            if os.path.isdir(os.path.dirname(os.path.dirname(target))):
                os.makedirs(os.path.dirname(target), exist_ok=True)
                open(target, 'w').write('// ---- created by /verif (scratch copy only): ' + fn + '\n' + txt)
                for h in hs: info[h['name']] = dict(h, file=fn, append=append, missing=False, integration=os.path.splitext(os.path.basename(append))[0])
            else:
                for h in hs: info[h['name']] = dict(h, file=fn, append=append, missing=True)
            continue
        target = os.path.join(d, append)
        if not os.path.exists(target):
            for h in hs: info[h['name']] = dict(h, file=fn, append=append, missing=True)
            continue
        with open(target, 'a') as f:
            f.write('\n\n// ---- appended by /verif (scratch copy only): ' + fn + '\n' + txt)
        for h in hs:
            info[h['name']] = dict(h, file=fn, append=append, missing=False)
    json.dump(info, open(os.path.join(d, '.verif_harnesses.json'), 'w'))
    return d, info

def crate_dir(d, append):
    # src/<crate>/src/x.rs -> src/<crate>
    return os.path.join(d, os.path.dirname(os.path.dirname(append)))

def run_one(d, h, timeout):
    cd = crate_dir(d, h['append'])
    env = dict(os.environ, CARGO_NET_OFFLINE='true')
    cmd = ['cargo', 'kani', '-Z', 'stubbing', '-Z', 'function-contracts', '--harness', h['name'], '--output-format', 'terse']
    t0 = time.time()
    rc, out, timed_out = _run(cmd, cd, env, timeout)
    if timed_out:
        return {'status': 'TIMEOUT', 'wall': time.time() - t0, 'tail': out[-1500:], 'cmd': ' '.join(cmd)}
    wall = time.time() - t0
    res = {'wall': wall, 'tail': out[-2500:], 'cmd': 'cd <scratch>/kani-src/%s && CARGO_NET_OFFLINE=true %s' % (os.path.relpath(cd, d), ' '.join(cmd))}
    m = re.search(r'\*\* (\d+) of (\d+) failed', out)
    if m:
        res['failed'] = int(m.group(1)); res['checks'] = int(m.group(2))
    if 'VERIFICATION:- SUCCESSFUL' in out:
        res['status'] = 'SUCCESSFUL'
    elif 'VERIFICATION:- FAILED' in out:
        res['status'] = 'FAILED'
        fm = re.findall(r'Failed Checks: (.*)', out)
        res['first_failure'] = fm[0].strip() if fm else '?'
        res['all_failures'] = [x.strip() for x in fm[:8]]
        if fm and all('unwinding assertion' in x for x in fm):
            res['status'] = 'UNWIND-BOUND'   # the harness' own bound is too small for this code: undecided, not a violation
    elif 'error' in out and 'could not compile' in out or 'error[E' in out:
        res['status'] = 'COMPILE-ERROR'
    else:
        res['status'] = 'UNKNOWN'
    return res

def witness(d, h, timeout):
    """re-run with concrete playback and return the byte vector of the harness' single symbolic array"""
    cd = crate_dir(d, h['append'])
    env = dict(os.environ, CARGO_NET_OFFLINE='true')
    cmd = ['cargo', 'kani', '-Z', 'stubbing', '-Z', 'function-contracts', '-Z', 'concrete-playback', '--concrete-playback=print',
           '--harness', h['name'], '--output-format', 'terse']
    rc, out, timed_out = _run(cmd, cd, env, timeout)
    if timed_out: return None
    k = out.find('concrete_vals')
    if k < 0: return None
    blk = out[k:out.find('];', k)]
    vecs = re.findall(r'vec!\[([0-9,\s]*)\]', blk)
    vals = []
    for v in vecs:
        nums = [int(x) for x in v.replace('\n', ' ').split(',') if x.strip()]
        vals.append(nums)
    if not vals: return None
    # the harness draws one array: take the longest vector
    vals.sort(key=len, reverse=True)
    return vals[0]

def replay(d, h, wit, timeout=900):
    """run the native #[test] replay of the harness module on the real code with the witness"""
    test = h['opts'].get('replay')
    if not test: return None
    cd = crate_dir(d, h['append'])
    env = dict(os.environ, CARGO_NET_OFFLINE='true', VERIF_WITNESS=','.join(str(x) for x in wit))
    cmd = ['cargo', 'test', '--offline', '--lib', test, '--', '--nocapture', '--exact'] if False else ['cargo', 'test', '--offline', '--lib', test, '--', '--nocapture']
    try:
        p = subprocess.run(cmd, cwd=cd, env=env, capture_output=True, text=True, timeout=timeout)
    except subprocess.TimeoutExpired:
        return {'ran': False, 'note': 'replay timed out'}
    out = p.stdout + p.stderr
    m = re.search(r'VERIF_REPLAY .*', out)
    return {'ran': True, 'rc': p.returncode, 'line': m.group(0) if m else '', 'reproduced_on_real_code': p.returncode != 0 and 'VERIF_REPLAY' in out,
            'cmd': 'VERIF_WITNESS=%s cargo test --offline --lib %s -- --nocapture' % (env['VERIF_WITNESS'], test), 'tail': out[-800:]}

def run_harnesses(verif, repo, scratch, names, tier, want_witness=True):
    """names may carry a tier suffix: 'harness@thorough' runs in the thorough tier only.  Harnesses run in parallel."""
    from concurrent.futures import ThreadPoolExecutor
    d, info = prepare(verif, repo, scratch)
    sel = []
    for nm in names:
        if '@' in nm:
            nm, t = nm.split('@', 1)
            if t == 'thorough' and tier != 'thorough':
                continue
        sel.append(nm)
    # build once (sequentially) so that parallel cargo invocations do not fight over the build lock
    def one(name):
        return _run_harness(d, info, name, tier, want_witness)
    results = []
    if sel:
        first = one(sel[0]); results.append(first)
        with ThreadPoolExecutor(max_workers=1) as ex:
            results += list(ex.map(one, sel[1:]))
    return results

def _run_harness(d, info, name, tier, want_witness):
    results = []
    for name in [name]:
        h = info.get(name)
        if h is None or h.get('missing'):
            results.append({'harness': name, 'mode': (h or {}).get('mode', 'bounded'), 'status': 'MISSING-TARGET', 'bound': (h or {}).get('bound')})
            continue
        timeout = 1500 if tier == 'quick' else 3600
        r = run_one(d, h, timeout)
        r.update({'harness': name, 'mode': h['mode'], 'bound': h['bound']})
        if r['status'] == 'FAILED' and want_witness:
            w = witness(d, h, timeout)
            if w is not None:
                r['witness'] = {'harness': name, 'input_bytes': w}
                rp = replay(d, h, w)
                if rp: r['witness']['replay'] = rp
        results.append(r)
    return results[0]

def run_native(verif, repo, scratch, name, timeout=1200):
    """run a native #[test] appended to the scratch copy; returns {'rc', 'line', 'tail'}"""
    d, info = prepare(verif, repo, scratch)
    h = info.get(name)
    if h is None or h.get('missing'):
        return {'status': 'MISSING-TARGET'}
    cd = crate_dir(d, h['append'])
    env = dict(os.environ, CARGO_NET_OFFLINE='true')
    cmd = ['cargo', 'test', '--offline', name, '--', '--nocapture']
    rc, out, timed_out = _run(cmd, cd, env, timeout)
    if timed_out: return {'status': 'TIMEOUT'}
    m = re.search(r'VERIF_FINDING .*', out)
    ran = re.search(r'test result: (ok|FAILED)\. (\d+) passed; (\d+) failed', out)
    status = 'COMPILE-ERROR'
    if ran:
        status = 'PASSED' if (ran.group(1) == 'ok' and int(ran.group(2)) >= 1) else ('FAILED' if int(ran.group(3)) >= 1 else 'NOT-RUN')
    return {'status': status, 'rc': rc, 'line': m.group(0) if m else '', 'tail': out[-600:],
            'cmd': 'cd <scratch>/kani-src/%s && %s' % (os.path.relpath(cd, d), ' '.join(cmd))}

def run_oracles(verif, repo, scratch, names, tier, timeout=1500):
    """run the native oracle #[test]s (bounded stand-ins / witness finders) named `names`, one cargo invocation per crate, on
    the scratch copy of the working tree.  Returns {name: {'status': PASSED|FAILED|COMPILE-ERROR|MISSING-TARGET|NOT-RUN|TIMEOUT,
    'cases', 'disagreements', 'first', 'bound', 'cmd'}}"""
    d, info = prepare(verif, repo, scratch)
    out_res = {}
    groups = {}
    for nm in names:
        h = info.get(nm)
        if h is None or h.get('missing'):
            out_res[nm] = {'status': 'MISSING-TARGET', 'bound': (h or {}).get('bound', '')}
        else:
            groups.setdefault((crate_dir(d, h['append']), h.get('integration')), []).append(nm)
    for (cd, integ), sel in groups.items():
        env = dict(os.environ, CARGO_NET_OFFLINE='true')
        if 'verif_oracle_scrypt_kat' in sel:
            import scryptkat
            kat = os.path.join(d, 'scrypt_kat.txt')
            try:
                scryptkat.gen(kat, tier == 'thorough')
                env['VERIF_SCRYPT_KAT'] = kat
            except Exception as e:
                out_res['verif_oracle_scrypt_kat'] = {'status': 'NOT-RUN', 'note': 'OpenSSL scrypt (python hashlib) not available: %r' % (e,), 'bound': info['verif_oracle_scrypt_kat']['bound']}
                sel = [x for x in sel if x != 'verif_oracle_scrypt_kat']
                if not sel: continue
        is_lib = os.path.exists(os.path.join(cd, 'src', 'lib.rs'))
        cmd = ['cargo', 'test', '--offline'] + (['--test', integ] if integ else ['--lib' if is_lib else '--bins']) + ['--', '--nocapture', '--test-threads', '4'] + sel
        rc, out, timed_out = _run(cmd, cd, env, timeout)
        shown = 'cd <scratch>/kani-src/%s && %s%s' % (os.path.relpath(cd, d), 'VERIF_SCRYPT_KAT=<scratch>/kani-src/scrypt_kat.txt ' if 'VERIF_SCRYPT_KAT' in env else '', ' '.join(cmd))
        compiled = re.search(r'^running \d+ tests?', out, re.M) is not None
        for nm in sel:
            r = {'bound': info[nm]['bound'], 'cmd': shown}
            if timed_out: r['status'] = 'TIMEOUT'
            elif not compiled:
                r['status'] = 'COMPILE-ERROR'; r['tail'] = out[-1500:]
            else:
                m = re.search(r'VERIF_ORACLE %s cases=(\d+) disagreements=(\d+) first=(.*)' % re.escape(nm), out)
                t = re.search(r'^test \S*\b%s \.\.\. (ok|FAILED)' % re.escape(nm), out, re.M)
                if m:
                    r['cases'] = int(m.group(1)); r['disagreements'] = int(m.group(2)); r['first'] = m.group(3).strip()
                if t is None and not m: r['status'] = 'NOT-RUN'
                elif (t and t.group(1) == 'FAILED') or (m and int(m.group(2)) > 0):
                    r['status'] = 'FAILED'
                    if not m:
                        # the test died (panic outside the oracle's own catch): keep the panic message as the witness
                        pm = re.search(r"thread '[^']*%s[^']*' panicked at ([^\n]*\n[^\n]*)" % re.escape(nm), out)
                        r['first'] = pm.group(1).replace('\n', ' ') if pm else 'test aborted'
                else:
                    r['status'] = 'PASSED' if m and int(m.group(1)) > 0 else 'NOT-RUN'
            out_res[nm] = r
    return out_res
