"""Known answers for the scrypt oracle, computed at check time by OpenSSL's scrypt (python hashlib)."""
import hashlib, itertools

def gen(path, thorough=False):
    lens = [0, 1, 7, 64, 65]
    rows = []
    k = 0
    Ns = [2, 4, 16, 64] + ([1024] if thorough else [])
    rs = [1, 2, 3, 8] + ([16] if thorough else [])
    dks = [1, 31, 32, 33, 64, 65, 200]
    for N, r, p in itertools.product(Ns, rs, range(1, 9)):
        # two output lengths and two password/salt shapes per (N, r, p), rotating through the lists
        for t in range(2 if not thorough else 4):
            dk = dks[(k + 3 * t) % len(dks)]
            pl = lens[(k + t) % len(lens)]; sl = lens[(k // 2 + 2 * t) % len(lens)]
            pw = bytes((i * 5 + k) & 0xff for i in range(pl)); salt = bytes((i * 11 + 3 * k) & 0xff for i in range(sl))
            try:
                out = hashlib.scrypt(pw, salt=salt, n=N, r=r, p=p, dklen=dk, maxmem=256 * 1024 * 1024)
            except Exception:
                continue
            rows.append('%s %s %d %d %d %d %s' % (pw.hex() or '-', salt.hex() or '-', N, r, p, dk, out.hex()))
            k += 1
    # the corners of the asserted domain: largest N with the smallest r, largest r with a small N
    for (N, r, p_, dk) in [(32768, 1, 1, 32), (32768, 1, 2, 7), (16384, 1, 1, 64), (2, 16, 8, 200), (32768, 2, 1, 32)]:
        try:
            pw = b'corner'; salt = b'NaCl'
            out = hashlib.scrypt(pw, salt=salt, n=N, r=r, p=p_, dklen=dk, maxmem=256 * 1024 * 1024)
            rows.append('%s %s %d %d %d %d %s' % (pw.hex(), salt.hex(), N, r, p_, dk, out.hex()))
        except Exception:
            pass
    open(path, 'w').write('\n'.join(rows) + '\n')
    return len(rows)

if __name__ == '__main__':
    import sys
    print(gen(sys.argv[1], len(sys.argv) > 2))
