// ---- spec/scrypt_words.rs : RFC 7914 sections 3-5 on 32-bit words (the form the implementation works on) ----
/// Salsa20/8 core (RFC 7914 section 3) on 16 words.  Uninterpreted here; the real salsa_xor is proved equal to the
/// RFC reference code for ALL inputs by the Kani harness salsa_xor_is_rfc7914 (complete).
pub uninterp spec fn spec_salsa(x: Seq<u32>) -> Seq<u32>;
pub mod salsa_axioms {
use vstd::prelude::*;
use super::*;
pub broadcast proof fn axiom_salsa_len(x: Seq<u32>)
    ensures #[trigger] spec_salsa(x).len() == 16
{ admit(); }
}
pub use salsa_axioms::axiom_salsa_len;
pub proof fn lemma_block_mix_len(b: Seq<u32>, r: int)
    requires r >= 0
    ensures spec_block_mix(b, r).len() == 32 * r
{ reveal(spec_block_mix); }

pub open spec fn xor_words(a: Seq<u32>, b: Seq<u32>) -> Seq<u32> {
    Seq::new(a.len(), |i: int| a[i] ^ b[i])
}
/// 64-byte block k of a word sequence
pub open spec fn wblk(s: Seq<u32>, k: int) -> Seq<u32> { s.subrange(16 * k, 16 * k + 16) }

/// scryptBlockMix (RFC 7914 section 4): X after i steps.  X_0 = B[2r-1];  X_{i+1} = Salsa(X_i xor B[i]);  Y_i = X_{i+1}
pub open spec fn bm_x(b: Seq<u32>, r: int, i: int) -> Seq<u32>
    decreases i
{
    if i <= 0 { wblk(b, 2 * r - 1) } else { spec_salsa(xor_words(bm_x(b, r, i - 1), wblk(b, i - 1))) }
}
/// B' = Y_0, Y_2, ..., Y_{2r-2}, Y_1, Y_3, ..., Y_{2r-1}
#[verifier::opaque]
pub open spec fn spec_block_mix(b: Seq<u32>, r: int) -> Seq<u32> {
    Seq::new((32 * r) as nat, |k: int| {
        let blk = k / 16;
        let src = if blk < r { 2 * blk } else { 2 * (blk - r) + 1 };
        bm_x(b, r, src + 1)[k % 16]
    })
}
/// Integerify (RFC 7914 section 5): the first 8 bytes, little endian, of the last 64-byte block
pub open spec fn integerify(x: Seq<u32>, r: int) -> u64 {
    (x[(2 * r - 1) * 16] as u64) | ((x[(2 * r - 1) * 16 + 1] as u64) << 32)
}
/// scryptROMix phase 1: X_i = BlockMix^i(X_0) (= V_i)
pub open spec fn rm_v(x0: Seq<u32>, r: int, i: int) -> Seq<u32>
    decreases i
{
    if i <= 0 { x0 } else { spec_block_mix(rm_v(x0, r, i - 1), r) }
}
/// scryptROMix phase 2: X after i of the N steps  j = Integerify(X) mod N;  X = BlockMix(X xor V_j)
pub open spec fn rm_x(x0: Seq<u32>, r: int, n: int, i: int) -> Seq<u32>
    decreases i
{
    if i <= 0 { rm_v(x0, r, n) } else {
        let x = rm_x(x0, r, n, i - 1);
        let j = (integerify(x, r) as int) % n;
        spec_block_mix(xor_words(x, rm_v(x0, r, j)), r)
    }
}
pub open spec fn words_of(b: Seq<u8>) -> Seq<u32> {
    Seq::new(b.len() / 4, |i: int| le32_dec(b.subrange(4 * i, 4 * i + 4)))
}
pub open spec fn bytes_of(w: Seq<u32>) -> Seq<u8> {
    Seq::new(w.len() * 4, |i: int| le32(w[i / 4])[i % 4])
}
/// scryptROMix on a 128*r-byte block
pub open spec fn spec_ro_mix_words(block: Seq<u8>, n: nat, r: nat) -> Seq<u8> {
    bytes_of(rm_x(words_of(block), r as int, n as int, n as int))
}

/// k * w, opaque: the loop proofs see only the linear facts of lemma_moff (keeps the main queries linear)
#[verifier::opaque]
pub open spec fn moff(k: int, w: int) -> int { k * w }
pub proof fn lemma_moff(k: int, w: int)
    requires k >= 0, w >= 0
    ensures moff(0, w) == 0, moff(k + 1, w) == moff(k, w) + w, moff(k, w) >= 0, moff(k, w) == k * w
{
    reveal(moff);
    assert(0 * w == 0) by (nonlinear_arith);
    assert((k + 1) * w == k * w + w) by (nonlinear_arith);
    assert(k * w >= 0) by (nonlinear_arith) requires k >= 0, w >= 0;
}
pub proof fn lemma_moff_mono(j: int, k: int, w: int)
    requires 0 <= j <= k, w >= 0
    ensures moff(j, w) <= moff(k, w)
{
    reveal(moff);
    assert(j * w <= k * w) by (nonlinear_arith) requires 0 <= j <= k, w >= 0;
}
/// block k of width w of the V table
pub open spec fn vblk(v: Seq<u32>, k: int, w: int) -> Seq<u32> { v.subrange(moff(k, w), moff(k, w) + w) }

/// For N a power of two, x & (N-1) == x mod N.  A mathematical fact; Z3's bit-vector solver does not finish on the
/// 64-bit remainder, so it is an axiom here and is checked for all 64-bit x, N by the Kani harness pow2_mask_is_mod.
pub proof fn axiom_pow2_mask(x: u64, n: u64)
    requires n > 1, n & ((n - 1) as u64) == 0
    ensures (x & ((n - 1) as u64)) as int == (x as int) % (n as int), x & ((n - 1) as u64) < n
{ admit(); }
