// ---- spec/files.rs : the two file formats of docs/file-format.txt as spec functions ----
pub open spec fn magic_asym() -> Seq<u8> { seq![0x65u8, 0x67u8, 0x6bu8, 0x10u8] }
pub open spec fn magic_pass() -> Seq<u8> { seq![0x65u8, 0x67u8, 0x6bu8, 0x20u8] }
pub open spec fn magic_sk() -> Seq<u8> { seq![0x65u8, 0x67u8, 0x6bu8, 0x30u8] }

/// file encryption key = HKDF-SHA256(salt = empty, ikm = payload key, info = handshake hash, 32 bytes)
pub open spec fn file_key(payload: Seq<u8>, h: Seq<u8>) -> Seq<u8> {
    spec_hkdf(Seq::<u8>::empty(), payload, h, 32)
}
/// scrypt(password, salt, N = 32768, r = 8, p = 1, 32 bytes)
pub open spec fn pass_key(pw: Seq<u8>, salt: Seq<u8>) -> Seq<u8> {
    spec_scrypt(pw, salt, 32768, 8, 1, 32)
}

/// Key-based file: prologue (4) ++ Noise X handshake message (128 for a 32-byte payload) ++ chunk stream.
/// None: the key exchange is refused (all-zero DH output).
pub open spec fn key_file(s: (Seq<u8>, Seq<u8>), e: (Seq<u8>, Seq<u8>), rs: Seq<u8>, payload: Seq<u8>, chunks: Seq<Seq<u8>>)
    -> Option<Seq<u8>>
{
    match x_write(x_init_sym(magic_asym(), rs), s, e, rs, payload) {
        None => None,
        Some((msg, st)) => Some(magic_asym() + msg + enc_stream(file_key(payload, st.h), Seq::<u8>::empty(), chunks)),
    }
}
/// Password file: magic (4) ++ salt (32) ++ chunk stream with the magic as AAD prefix
pub open spec fn pass_file(pw: Seq<u8>, salt: Seq<u8>, chunks: Seq<Seq<u8>>) -> Seq<u8> {
    magic_pass() + salt + enc_stream(pass_key(pw, salt), magic_pass(), chunks)
}

pub enum HdrVerdict { Trunc, BadMagic, WrongMode, Noise(XReadErr), PayloadLen, Ok }

/// header stage of key-mode decryption: verdict, and on Ok the (file key, sender static key)
pub open spec fn key_hdr(r: (Seq<u8>, Seq<u8>), s: Seq<u8>) -> (HdrVerdict, Seq<u8>, Seq<u8>) {
    let none = Seq::<u8>::empty();
    if s.len() < 4 { (HdrVerdict::Trunc, none, none) }
    else if s.subrange(0, 4) == magic_pass() { (HdrVerdict::WrongMode, none, none) }
    else if s.subrange(0, 4) != magic_asym() { (HdrVerdict::BadMagic, none, none) }
    else if s.len() < 132 { (HdrVerdict::Trunc, none, none) }
    else {
        match x_read(x_init_sym(s.subrange(0, 4), r.1), r, s.subrange(4, 132)) {
            Err(e) => (HdrVerdict::Noise(e), none, none),
            Ok(x) => if x.payload.len() != 32 { (HdrVerdict::PayloadLen, none, none) }
                     else { (HdrVerdict::Ok, file_key(x.payload, x.sym.h), x.rs) },
        }
    }
}
/// header stage of password-mode decryption: verdict and the chunk key
pub open spec fn pass_hdr(pw: Seq<u8>, s: Seq<u8>) -> (HdrVerdict, Seq<u8>) {
    let none = Seq::<u8>::empty();
    if s.len() < 4 { (HdrVerdict::Trunc, none) }
    else if s.subrange(0, 4) == magic_asym() { (HdrVerdict::WrongMode, none) }
    else if s.subrange(0, 4) != magic_pass() { (HdrVerdict::BadMagic, none) }
    else if s.len() < 36 { (HdrVerdict::Trunc, none) }
    else { (HdrVerdict::Ok, pass_key(pw, s.subrange(4, 36))) }
}
