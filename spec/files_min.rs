// ---- spec/files_min.rs : the part of spec/files.rs the CLI unit needs (same text) ----
pub open spec fn magic_sk() -> Seq<u8> { seq![0x65u8, 0x67u8, 0x6bu8, 0x30u8] }
/// scrypt(password, salt, N = 32768, r = 8, p = 1, 32 bytes)
pub open spec fn pass_key(pw: Seq<u8>, salt: Seq<u8>) -> Seq<u8> {
    spec_scrypt(pw, salt, 32768, 8, 1, 32)
}
