// ---- spec/keyring.rs : locked private key blob and encoded public key (docs/file-format.txt, man page) ----
/// 84 bytes: version 65 67 6B 30 ++ salt(32) ++ ChaCha20-Poly1305(scrypt(pw, salt), nonce = 0^12, aad = version, sk)
pub open spec fn lock_bytes(sk: Seq<u8>, pw: Seq<u8>, salt: Seq<u8>) -> Seq<u8> {
    magic_sk() + salt + spec_seal(pass_key(pw, salt), zeros(12), magic_sk(), sk)
}
pub enum UnlockErr { Length, Format, Decrypt }
pub open spec fn unlock_bytes(blob: Seq<u8>, pw: Seq<u8>) -> Result<Seq<u8>, UnlockErr> {
    if blob.len() != 84 { Err(UnlockErr::Length) }
    else if blob.subrange(0, 4) != magic_sk() { Err(UnlockErr::Format) }
    else {
        match spec_open(pass_key(pw, blob.subrange(4, 36)), zeros(12), blob.subrange(0, 4), blob.subrange(36, 84)) {
            None => Err(UnlockErr::Decrypt),
            Some(sk) => Ok(sk),
        }
    }
}
/// public key in the keyring encoding before base64: 32 bytes ++ first 4 bytes of SHA-256
pub open spec fn enc_pk_bytes(pk: Seq<u8>) -> Seq<u8> {
    pk + spec_sha256(pk).subrange(0, 4)
}
