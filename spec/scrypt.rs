// ---- spec/scrypt.rs : RFC 7914 scrypt as a spec function (placeholder: refined in unit U4) ----
pub uninterp spec fn spec_scrypt(pw: Seq<u8>, salt: Seq<u8>, n: nat, r: nat, p: nat, dk_len: nat) -> Seq<u8>;
/// the parameter domain of RFC 7914 as the implementation asserts it (N power of two > 1, r,p >= 1, memory limits)
pub open spec fn scrypt_params_ok(n: int, r: int, p: int, dk_len: int) -> bool {
    n > 1 && r >= 1 && p >= 1 && dk_len >= 1 && dk_len <= 0xffff_ffff * 32
    && r * p < 0x4000_0000 && n * r * 128 <= 0xffff_ffff_ffff && p * r * 128 <= 0xffff_ffff_ffff
}
