// ---- spec/scrypt.rs : RFC 7914 scrypt as spec functions ----
/// ROMix (RFC 7914 section 5) on one 128*r-byte block with cost N: defined on 32-bit words in spec/scrypt_words.rs
/// (scryptROMix / scryptBlockMix / Integerify transcribed from the RFC; Salsa20/8 itself uninterpreted there).
pub open spec fn spec_ro_mix(block: Seq<u8>, n: nat, r: nat) -> Seq<u8> { spec_ro_mix_words(block, n, r) }

/// byte offset of block k: k * 128 * r.  Opaque, so that the loop proofs see only the linear facts of lemma_boff
/// (non-linear arithmetic in the main queries made them seed-sensitive).
#[verifier::opaque]
pub open spec fn boff(k: int, r: int) -> int { k * 128 * r }
pub proof fn lemma_boff(k: int, r: int)
    requires k >= 0, r >= 1
    ensures boff(0, r) == 0, boff(k + 1, r) == boff(k, r) + 128 * r, boff(k, r) >= 0, boff(k, r) == k * 128 * r,
            k * 128 >= 0, k * 128 <= boff(k, r),
{
    reveal(boff);
    assert(0 * 128 * r == 0) by (nonlinear_arith);
    assert((k + 1) * 128 * r == k * 128 * r + 128 * r) by (nonlinear_arith);
    assert(k * 128 * r >= 0) by (nonlinear_arith) requires k >= 0, r >= 1;
    assert(k * 128 <= k * 128 * r) by (nonlinear_arith) requires k >= 0, r >= 1;
}
pub proof fn lemma_boff_mono(j: int, k: int, r: int)
    requires 0 <= j <= k, r >= 1
    ensures boff(j, r) <= boff(k, r)
{
    reveal(boff);
    assert(j * 128 * r <= k * 128 * r) by (nonlinear_arith) requires 0 <= j <= k, r >= 1;
}
/// B with each of its first `k` 128*r-byte blocks replaced by ROMix of it (RFC 7914 section 6, step 2)
pub open spec fn mix_blocks(b: Seq<u8>, n: nat, r: nat, k: nat) -> Seq<u8>
    decreases k
{
    if k == 0 { b } else {
        let prev = mix_blocks(b, n, r, (k - 1) as nat);
        let lo = boff(k - 1, r as int);
        prev.subrange(0, lo) + spec_ro_mix(b.subrange(lo, lo + 128 * r), n, r) + prev.subrange(lo + 128 * r, prev.len() as int)
    }
}
/// scrypt(P, S, N, r, p, dkLen) = PBKDF2(P, ROMix-ed PBKDF2(P, S, 1, p*128*r), 1, dkLen)   (RFC 7914 section 6)
pub open spec fn spec_scrypt(pw: Seq<u8>, salt: Seq<u8>, n: nat, r: nat, p: nat, dk_len: nat) -> Seq<u8> {
    let b = spec_pbkdf2(pw, salt, 1, boff(p as int, r as int) as nat);
    spec_pbkdf2(pw, mix_blocks(b, n, r, p), 1, dk_len)
}
/// `n` is a power of two: what `assert!(n & (n - 1) == 0)` checks
pub open spec fn is_pow2(n: usize) -> bool { n > 0 && n & ((n - 1) as usize) == 0 }
/// the parameter domain of RFC 7914 exactly as the implementation asserts it (N a power of two > 1, r, p >= 1,
/// memory limits), plus the PBKDF2 output limits of orion
pub open spec fn scrypt_params_ok(n: usize, r: usize, p: usize, dk_len: usize) -> bool {
    n > 1 && is_pow2(n) && r >= 1 && p >= 1 && dk_len >= 1 && dk_len <= 0xffff_ffff * 32
    && r * p < 0x4000_0000 && r <= usize::MAX / 128 / p && r <= usize::MAX / 256 && n <= usize::MAX / 128 / r
    && p * 128 * r <= 0xffff_ffff * 32
}
pub open spec fn blk(s: Seq<u8>, k: int, r: int) -> Seq<u8> { s.subrange(boff(k, r), boff(k, r) + 128 * r) }
pub proof fn lemma_kestrel_scrypt_params()
    ensures scrypt_params_ok(32768, 8, 1, 32)
{
    assert(32768usize & 32767usize == 0) by (bit_vector);
}
