// ---- spec/noise.rs : Noise_X_25519_ChaChaPoly_SHA256 (Noise rev 34) as spec functions ----
/// HKDF(chaining_key, input_key_material, 2) of Noise section 4.3
pub open spec fn noise_hkdf2(ck: Seq<u8>, ikm: Seq<u8>) -> (Seq<u8>, Seq<u8>) {
    let temp_key = spec_hmac(ck, ikm);
    let out1 = spec_hmac(temp_key, seq![0x01u8]);
    let out2 = spec_hmac(temp_key, out1 + seq![0x02u8]);
    (out1, out2)
}
