// ---- spec/noise.rs : Noise_X_25519_ChaChaPoly_SHA256 (Noise rev 34) as spec functions ----
// Written from the Noise specification sections 4.3 (HKDF), 5.1-5.3 (CipherState, SymmetricState,
// HandshakeState) and 7.2 (pattern X), not from the code.

/// HKDF(chaining_key, input_key_material, 2) of Noise section 4.3
pub open spec fn noise_hkdf2(ck: Seq<u8>, ikm: Seq<u8>) -> (Seq<u8>, Seq<u8>) {
    let temp_key = spec_hmac(ck, ikm);
    let out1 = spec_hmac(temp_key, seq![0x01u8]);
    let out2 = spec_hmac(temp_key, out1 + seq![0x02u8]);
    (out1, out2)
}

/// "Noise_X_25519_ChaChaPoly_SHA256" in ASCII (31 bytes)
pub open spec fn noise_x_name() -> Seq<u8> {
    seq![0x4eu8, 0x6fu8, 0x69u8, 0x73u8, 0x65u8, 0x5fu8, 0x58u8, 0x5fu8, 0x32u8, 0x35u8, 0x35u8, 0x31u8, 0x39u8, 0x5fu8,
         0x43u8, 0x68u8, 0x61u8, 0x43u8, 0x68u8, 0x61u8, 0x50u8, 0x6fu8, 0x6cu8, 0x79u8, 0x5fu8,
         0x53u8, 0x48u8, 0x41u8, 0x32u8, 0x35u8, 0x36u8]
}

/// SymmetricState of Noise 5.2 (ck, h) together with its CipherState (k, n)
pub struct SymView {
    pub ck: Seq<u8>,
    pub h: Seq<u8>,
    pub k: Option<Seq<u8>>,
    pub n: u64,
}

/// InitializeSymmetric(protocol_name)
pub open spec fn sym_init(name: Seq<u8>) -> SymView {
    let h = if name.len() <= 32 { name + zeros((32 - name.len()) as nat) } else { spec_sha256(name) };
    SymView { ck: h, h: h, k: None, n: 0 }
}
/// MixHash(data)
pub open spec fn sym_mix_hash(s: SymView, data: Seq<u8>) -> SymView {
    SymView { h: spec_sha256(s.h + data), ..s }
}
/// MixKey(input_key_material)
pub open spec fn sym_mix_key(s: SymView, ikm: Seq<u8>) -> SymView {
    let (ck, temp_k) = noise_hkdf2(s.ck, ikm);
    SymView { ck: ck, h: s.h, k: Some(temp_k), n: 0 }
}
/// EncryptAndHash(plaintext) with a key present
pub open spec fn sym_enc(s: SymView, pt: Seq<u8>) -> (Seq<u8>, SymView) {
    let c = seal_noise(s.k.unwrap(), s.n, s.h, pt);
    (c, sym_mix_hash(SymView { n: (s.n + 1) as u64, ..s }, c))
}
/// DecryptAndHash(ciphertext) with a key present
pub open spec fn sym_dec(s: SymView, ct: Seq<u8>) -> Option<(Seq<u8>, SymView)> {
    match open_noise(s.k.unwrap(), s.n, s.h, ct) {
        None => None,
        Some(p) => Some((p, sym_mix_hash(SymView { n: (s.n + 1) as u64, ..s }, ct))),
    }
}

// `Tok` is the token alphabet E, S, EE, ES, SE, SS: the including unit binds it (to the real noise::Token
// enum in the crypto unit, to a local copy in the lemma unit).

/// pattern X, initiator's single message:  -> e, es, s, ss
pub open spec fn x_pattern() -> Seq<Tok> { seq![Tok::E, Tok::ES, Tok::S, Tok::SS] }

/// Initialize(X, initiator, prologue, s, e, rs): h/ck from the protocol name, MixHash(prologue),
/// pre-message `<- s`: MixHash(responder's static public key)
pub open spec fn x_init_sym(prologue: Seq<u8>, responder_static_pub: Seq<u8>) -> SymView {
    sym_mix_hash(sym_mix_hash(sym_init(noise_x_name()), prologue), responder_static_pub)
}

/// WriteMessage for pattern X, straight from the token definitions of Noise 5.3.
/// s, e = (private, public); rs = responder's static public key.
/// None = a DH produced the all-zero output (refused).
pub open spec fn x_write(sym0: SymView, s: (Seq<u8>, Seq<u8>), e: (Seq<u8>, Seq<u8>), rs: Seq<u8>, payload: Seq<u8>)
    -> Option<(Seq<u8>, SymView)>
{
    // e
    let st1 = sym_mix_hash(sym0, e.1);
    // es
    match spec_x25519(e.0, rs) {
        None => None,
        Some(dh1) => {
            let st2 = sym_mix_key(st1, dh1);
            // s
            let (c1, st3) = sym_enc(st2, s.1);
            // ss
            match spec_x25519(s.0, rs) {
                None => None,
                Some(dh2) => {
                    let st4 = sym_mix_key(st3, dh2);
                    let (c2, st5) = sym_enc(st4, payload);
                    Some((e.1 + c1 + c2, st5))
                },
            }
        },
    }
}

pub struct XRead { pub payload: Seq<u8>, pub rs: Seq<u8>, pub re: Seq<u8>, pub sym: SymView }
pub enum XReadErr { TooShort, Dh, Decrypt, KeySize }

/// ReadMessage for pattern X by the responder with static key pair s (private, public).
pub open spec fn x_read(sym0: SymView, s: (Seq<u8>, Seq<u8>), msg: Seq<u8>) -> Result<XRead, XReadErr> {
    if msg.len() < 96 || msg.len() > 65535 { Err(XReadErr::TooShort) } else {
        // e
        let re = msg.subrange(0, 32);
        let st1 = sym_mix_hash(sym0, re);
        // es
        match spec_x25519(s.0, re) {
            None => Err(XReadErr::Dh),
            Some(dh1) => {
                let st2 = sym_mix_key(st1, dh1);
                // s
                match sym_dec(st2, msg.subrange(32, 80)) {
                    None => Err(XReadErr::Decrypt),
                    Some((rs, st3)) => {
                        // ss
                        match spec_x25519(s.0, rs) {
                            None => Err(XReadErr::Dh),
                            Some(dh2) => {
                                let st4 = sym_mix_key(st3, dh2);
                                match sym_dec(st4, msg.subrange(80, msg.len() as int)) {
                                    None => Err(XReadErr::Decrypt),
                                    Some((p, st5)) => Ok(XRead { payload: p, rs: rs, re: re, sym: st5 }),
                                }
                            },
                        }
                    },
                }
            },
        }
    }
}

// ---- the generic token fold the real code implements (loop invariants talk about this);
// ---- lemma_fold_is_x_write / lemma_fold_is_x_read tie it to the straight-line definitions above.
pub open spec fn w_step(st: SymView, buf: Seq<u8>, s: (Seq<u8>, Seq<u8>), e: (Seq<u8>, Seq<u8>), rs: Seq<u8>, t: Tok)
    -> Option<(SymView, Seq<u8>)>
{
    match t {
        Tok::E => Some((sym_mix_hash(st, e.1), buf + e.1)),
        Tok::S => { let (c, st2) = sym_enc(st, s.1); Some((st2, buf + c)) },
        Tok::ES => match spec_x25519(e.0, rs) { None => None, Some(d) => Some((sym_mix_key(st, d), buf)) },
        Tok::SS => match spec_x25519(s.0, rs) { None => None, Some(d) => Some((sym_mix_key(st, d), buf)) },
        _ => None,
    }
}
pub open spec fn w_fold(sym0: SymView, s: (Seq<u8>, Seq<u8>), e: (Seq<u8>, Seq<u8>), rs: Seq<u8>, pat: Seq<Tok>, n: int)
    -> Option<(SymView, Seq<u8>)>
    decreases n
{
    if n <= 0 { Some((sym0, Seq::<u8>::empty())) } else {
        match w_fold(sym0, s, e, rs, pat, n - 1) {
            None => None,
            Some((st, buf)) => w_step(st, buf, s, e, rs, pat[n - 1]),
        }
    }
}

pub struct RSt { pub sym: SymView, pub idx: int, pub re: Option<Seq<u8>>, pub rs: Option<Seq<u8>> }
pub open spec fn r_step(st: RSt, s: (Seq<u8>, Seq<u8>), msg: Seq<u8>, t: Tok) -> Result<RSt, XReadErr> {
    match t {
        Tok::E => {
            let re = msg.subrange(st.idx, st.idx + 32);
            Ok(RSt { sym: sym_mix_hash(st.sym, re), idx: st.idx + 32, re: Some(re), rs: st.rs })
        },
        Tok::S => match sym_dec(st.sym, msg.subrange(st.idx, st.idx + 48)) {
            None => Err(XReadErr::Decrypt),
            Some((p, sym2)) => Ok(RSt { sym: sym2, idx: st.idx + 48, re: st.re, rs: Some(p) }),
        },
        Tok::ES => match spec_x25519(s.0, st.re.unwrap()) {
            None => Err(XReadErr::Dh),
            Some(d) => Ok(RSt { sym: sym_mix_key(st.sym, d), ..st }),
        },
        Tok::SS => match spec_x25519(s.0, st.rs.unwrap()) {
            None => Err(XReadErr::Dh),
            Some(d) => Ok(RSt { sym: sym_mix_key(st.sym, d), ..st }),
        },
        _ => Err(XReadErr::KeySize),
    }
}
pub open spec fn r_fold(sym0: SymView, s: (Seq<u8>, Seq<u8>), msg: Seq<u8>, pat: Seq<Tok>, n: int) -> Result<RSt, XReadErr>
    decreases n
{
    if n <= 0 { Ok(RSt { sym: sym0, idx: 0, re: None, rs: None }) } else {
        match r_fold(sym0, s, msg, pat, n - 1) {
            Err(e) => Err(e),
            Ok(st) => r_step(st, s, msg, pat[n - 1]),
        }
    }
}

pub proof fn lemma_fold_is_x_write(sym0: SymView, s: (Seq<u8>, Seq<u8>), e: (Seq<u8>, Seq<u8>), rs: Seq<u8>, payload: Seq<u8>)
    ensures x_write(sym0, s, e, rs, payload) == (match w_fold(sym0, s, e, rs, x_pattern(), 4) {
        None => None,
        Some((st, buf)) => { let (c, st5) = sym_enc(st, payload); Some((buf + c, st5)) },
    })
{
    reveal_with_fuel(w_fold, 5);
    let p = x_pattern();
    assert(p[0] == Tok::E && p[1] == Tok::ES && p[2] == Tok::S && p[3] == Tok::SS);
    let st1 = sym_mix_hash(sym0, e.1);
    assert(Seq::<u8>::empty() + e.1 =~= e.1);
    match spec_x25519(e.0, rs) {
        None => {},
        Some(dh1) => {
            let st2 = sym_mix_key(st1, dh1);
            let (c1, st3) = sym_enc(st2, s.1);
            match spec_x25519(s.0, rs) {
                None => {},
                Some(dh2) => {
                    let st4 = sym_mix_key(st3, dh2);
                    let (c2, st5) = sym_enc(st4, payload);
                    assert((e.1 + c1) + c2 =~= e.1 + c1 + c2);
                },
            }
        },
    }
} //@C
pub proof fn lemma_w_fold_none(sym0: SymView, s: (Seq<u8>, Seq<u8>), e: (Seq<u8>, Seq<u8>), rs: Seq<u8>, pat: Seq<Tok>, k: int, n: int)
    requires 0 <= k <= n, w_fold(sym0, s, e, rs, pat, k) is None
    ensures w_fold(sym0, s, e, rs, pat, n) is None
    decreases n - k
{
    if k < n { lemma_w_fold_none(sym0, s, e, rs, pat, k, n - 1); }
} //@C
pub proof fn lemma_r_fold_err(sym0: SymView, s: (Seq<u8>, Seq<u8>), msg: Seq<u8>, pat: Seq<Tok>, k: int, n: int)
    requires 0 <= k <= n, r_fold(sym0, s, msg, pat, k) is Err
    ensures r_fold(sym0, s, msg, pat, n) == r_fold(sym0, s, msg, pat, k)
    decreases n - k
{
    if k < n { lemma_r_fold_err(sym0, s, msg, pat, k, n - 1); }
} //@C
pub proof fn lemma_fold_is_x_read(sym0: SymView, s: (Seq<u8>, Seq<u8>), msg: Seq<u8>)
    requires 96 <= msg.len() <= 65535
    ensures x_read(sym0, s, msg) == (match r_fold(sym0, s, msg, x_pattern(), 4) {
        Err(e) => Err(e),
        Ok(st) => match sym_dec(st.sym, msg.subrange(st.idx, msg.len() as int)) {
            None => Err(XReadErr::Decrypt),
            Some((p, st5)) => Ok(XRead { payload: p, rs: st.rs.unwrap(), re: st.re.unwrap(), sym: st5 }),
        },
    })
{
    reveal_with_fuel(r_fold, 5);
    let p = x_pattern();
    assert(p[0] == Tok::E && p[1] == Tok::ES && p[2] == Tok::S && p[3] == Tok::SS);
} //@C
