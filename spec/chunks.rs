// ---- spec/chunks.rs : the chunk layer of docs/file-format.txt as spec functions (the oracle) ----
// Written from docs/file-format.txt and the property statements, not from the code.

/// Noise ChaChaPoly nonce: 32 zero bits followed by the 64-bit little-endian counter (Noise rev 34, 12.3)
pub open spec fn noise_nonce(n: u64) -> Seq<u8> {
    seq![0u8, 0u8, 0u8, 0u8] + le64(n)
}
pub open spec fn seal_noise(key: Seq<u8>, n: u64, aad: Seq<u8>, pt: Seq<u8>) -> Seq<u8> {
    spec_seal(key, noise_nonce(n), aad, pt)
}
pub open spec fn open_noise(key: Seq<u8>, n: u64, aad: Seq<u8>, ct: Seq<u8>) -> Option<Seq<u8>> {
    spec_open(key, noise_nonce(n), aad, ct)
}

/// One chunk record: 8-byte BE chunk number, 4-byte BE last flag, 4-byte BE length, ciphertext+tag.
/// AAD = file-level aad ++ flag ++ length; nonce = chunk number.
pub open spec fn chunk_rec(key: Seq<u8>, aad: Seq<u8>, i: int, last: bool, pt: Seq<u8>) -> Seq<u8> {
    let flag = be32(if last { 1u32 } else { 0u32 });
    let lenb = be32(pt.len() as u32);
    be64(i as u64) + flag + lenb + seal_noise(key, i as u64, aad + flag + lenb, pt)
}

/// records 0..n-1, none of them marked last
pub open spec fn enc_nolast(key: Seq<u8>, aad: Seq<u8>, chunks: Seq<Seq<u8>>, n: int) -> Seq<u8>
    decreases n
{
    if n <= 0 { Seq::<u8>::empty() }
    else { enc_nolast(key, aad, chunks, n - 1) + chunk_rec(key, aad, n - 1, false, chunks[n - 1]) }
}

/// the complete chunk stream for `chunks` (non-empty): last flag on the final record only
pub open spec fn enc_stream(key: Seq<u8>, aad: Seq<u8>, chunks: Seq<Seq<u8>>) -> Seq<u8> {
    enc_nolast(key, aad, chunks, chunks.len() - 1)
        + chunk_rec(key, aad, chunks.len() - 1, true, chunks[chunks.len() - 1])
}

/// what the encryptor turns a read history into: the non-empty reads, or one empty chunk
pub open spec fn chunks_of(reads: Seq<Seq<u8>>) -> Seq<Seq<u8>> {
    if reads.len() == 0 { seq![Seq::<u8>::empty()] } else { reads }
}

pub open spec fn concat(chunks: Seq<Seq<u8>>, n: int) -> Seq<u8>
    decreases n
{
    if n <= 0 { Seq::<u8>::empty() } else { concat(chunks, n - 1) + chunks[n - 1] }
}

pub enum Verdict { Accept, RejLen, RejAuth, RejTrunc, RejTrailing }

/// The decoder of the format: verdict and the authenticated plaintext released before the verdict.
/// The stored 8-byte counter (bytes 0..8 of a record) is advisory and never looked at.
pub open spec fn dec_spec(key: Seq<u8>, aad: Seq<u8>, cs: int, s: Seq<u8>, i: int) -> (Verdict, Seq<u8>)
    decreases s.len()
{
    if s.len() < 16 { (Verdict::RejTrunc, Seq::<u8>::empty()) } else {
        let flag = s.subrange(8, 12);
        let lenb = s.subrange(12, 16);
        let n = be32_dec(lenb) as int;
        if n > cs { (Verdict::RejLen, Seq::<u8>::empty()) }
        else if s.len() < 16 + n + 16 { (Verdict::RejTrunc, Seq::<u8>::empty()) }
        else {
            match open_noise(key, i as u64, aad + flag + lenb, s.subrange(16, 16 + n + 16)) {
                None => (Verdict::RejAuth, Seq::<u8>::empty()),
                Some(p) =>
                    if be32_dec(flag) == 1 {
                        if s.len() > 32 + n { (Verdict::RejTrailing, Seq::<u8>::empty()) } else { (Verdict::Accept, p) }
                    } else {
                        let (v, rest) = dec_spec(key, aad, cs, s.skip(32 + n), i + 1);
                        (v, p + rest)
                    },
            }
        }
    }
}

/// the first chunk record of `s` is well framed and authenticates under nonce 0 (C13: only then may the sink be touched)
pub open spec fn first_chunk_ok(key: Seq<u8>, aad: Seq<u8>, cs: int, s: Seq<u8>) -> bool {
    s.len() >= 16 && {
        let flag = s.subrange(8, 12);
        let lenb = s.subrange(12, 16);
        let n = be32_dec(lenb) as int;
        n <= cs && s.len() >= 32 + n && open_noise(key, 0, aad + flag + lenb, s.subrange(16, 16 + n + 16)) is Some
    }
}
